#!/bin/bash
# soak.sh <tier> <seeds...> : runs every check at several seeds, prints one line per run (silence check on the unchanged tree)
cd "$(dirname "$0")"
./setup.sh >/dev/null 2>&1
tier=$1; shift
for seed in "$@"; do
  for c in C01 C02 C03 C04 C05 C06 C07 C08 C09 C10 C11 C12 C13 C14 C15 C16 C17 C18; do
    s=$(date +%s)
    out=$(VERIF_SEED=$seed ./check $c --tier $tier 2>&1); rc=$?
    echo "seed=$seed $c rc=$rc $(( $(date +%s) - s ))s $(echo "$out" | grep -m1 "$tier:" | cut -c1-120)"
    if [ $rc -ne 0 ]; then echo "$out" | grep -v "^KNOWN-FINDING" | head -40 | cut -c1-300; fi
  done
done
echo SOAK-END
