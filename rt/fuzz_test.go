package rt

import (
	"reflect"
	"testing"

	"pgregory.net/rapid"
)

// native fuzz targets (thorough tier only; not reproducible from a seed, the crasher file is)

func FuzzC08(f *testing.F) {
	f.Fuzz(rapid.MakeFuzz(func(rt *rapid.T) {
		tm := genTerm(termOpts{maxDepth: 6}).Draw(rt, "term")
		ops := genOps(16).Draw(rt, "ops")
		if rep, _ := compareTerm("C08", "term", tm, ops, defaultFuel); rep != nil {
			p := writeReplay(rep)
			rt.Fatalf("VIOLATION property=C08 replay=%s\n%s", p, rep.What)
		}
	}))
}

func FuzzC09(f *testing.F) {
	fam := c09Family()
	f.Fuzz(rapid.MakeFuzz(func(rt *rapid.T) {
		g := rapid.SampledFrom(fam).Draw(rt, "g")
		ops := genOps(24).Draw(rt, "ops")
		if rep, _ := compareTerm("C09", "history", g, ops, defaultFuel); rep != nil {
			p := writeReplay(rep)
			rt.Fatalf("VIOLATION property=C09 replay=%s\n%s", p, rep.What)
		}
	}))
}

func FuzzC10String(f *testing.F) {
	for _, p := range hostilePieces {
		f.Add(p)
		f.Add("a" + p + "b" + p)
	}
	f.Add("")
	f.Fuzz(func(t *testing.T, s string) {
		var got []kv
		var pv any
		func() {
			defer func() { pv = recover() }()
			got = iterString(s)
		}()
		if want := nativeString(s); pv != nil || !reflect.DeepEqual(got, want) {
			t.Fatalf("NewStringIter(%q): got %v (panic %v) want %v", s, got, pv, want)
		}
	})
}
