package rt

import (
	"fmt"
	"testing"

	"github.com/goghcrow/go-co/seq"
	"pgregory.net/rapid"
)

// C17 — stack use does not grow with the number of iterations between yields.
// Oracle: depth probes (runtime.Callers) taken inside the loop condition/body: the deepest probe
// minus the first probe of the same advance must stay below a constant K that does not depend on
// the gap g; with delegation depth d the bound is a + b*d.

const ruleC17 = "loop forms {For with post, While, Loop+Break, loop with Continue, nested loops, Combine in body, one inner loop VALUE re-run by an outer loop (2 and 3 levels), delegation depth d} x " +
	"gap g (non-yielding iterations between two yields); depth probed with runtime.Callers in cond/body; " +
	"non-trivial = g >= 100; distinct by (form, g, d)"

const stackSlackK = 24 // frames; a growth of one frame per iteration exceeds this at g = 100

type c17Case struct {
	Form  string `json:"form"`
	Gap   int    `json:"gap"`
	Depth int    `json:"delegation_depth"`
}

// filterGen yields i for every i in [0, n) with i%gap == 0, in the shape the compiler emits.
func filterGen(form string, n, gap int, probe func()) seq.Iterator[int] {
	type S = seq.Seq[int]
	normal := seq.Normal[int]
	return seq.Start(seq.Delay(func() S {
		i := 0
		body := func() S {
			probe()
			if i%gap == 0 {
				return seq.Bind(i, func() S { return normal() })
			}
			return normal()
		}
		switch form {
		case "for-post":
			return seq.For(func() bool { probe(); return i < n }, func() { probe(); i++ }, seq.Delay(body))
		case "while":
			return seq.While(func() bool { return i < n }, seq.Delay(func() S {
				probe()
				j := i
				i++
				if j%gap == 0 {
					return seq.Bind(j, func() S { return normal() })
				}
				return normal()
			}))
		case "loop-break":
			return seq.Loop(seq.Delay(func() S {
				probe()
				if i >= n {
					return seq.Break[int]()
				}
				j := i
				i++
				if j%gap == 0 {
					return seq.Bind(j, func() S { return normal() })
				}
				return normal()
			}))
		case "for-continue":
			return seq.For(func() bool { return i < n }, func() { i++ }, seq.Delay(func() S {
				probe()
				if i%gap != 0 {
					return seq.Continue[int]()
				}
				return seq.Combine(
					seq.Delay(func() S { return seq.Bind(i, func() S { return normal() }) }),
					seq.Delay(func() S { return normal() }),
				)
			}))
		case "combine-body":
			return seq.For(func() bool { return i < n }, func() { i++ }, seq.Delay(func() S {
				return seq.Combine(
					seq.Delay(func() S {
						probe()
						if i%gap == 0 {
							return seq.Bind(i, func() S { return normal() })
						}
						return normal()
					}),
					seq.Delay(func() S { return normal() }),
				)
			}))
		case "nested":
			// outer loop runs n/gap times, the inner loop spins gap-1 non-yielding iterations
			return seq.For(func() bool { return i < n }, nil, seq.Delay(func() S {
				return seq.Combine(
					seq.Delay(func() S { return seq.Bind(i, func() S { return normal() }) }),
					seq.Delay(func() S {
						i++
						return seq.For(func() bool { probe(); return i%gap != 0 && i < n }, func() { i++ }, seq.Delay(func() S { return normal() }))
					}),
				)
			}))
		case "body-advances-other-generator", "body-delegates-to-empty-generators":
			// the loop BODY advances other generators (by hand / by delegation) and mostly finishes without yielding itself
			if form == "body-advances-other-generator" {
				src := filterGen("while", n, 1, func() {})
				return seq.For(func() bool { return i < n }, func() { i++ }, seq.Delay(func() S {
					probe()
					if !src.MoveNext() {
						return seq.Break[int]()
					}
					if v := src.Current(); v%gap == 0 {
						return seq.Bind(v, func() S { return normal() })
					}
					return normal()
				}))
			}
			return seq.For(func() bool { return i < n }, func() { i++ }, seq.Delay(func() S {
				probe()
				j := i
				inner := seq.Start(seq.Delay(func() S { // yields j only when it is a multiple of gap
					if j%gap == 0 {
						return seq.Bind(j, func() S { return normal() })
					}
					return normal()
				}))
				return seq.While(inner.MoveNext, seq.Delay(func() S {
					return seq.Bind(inner.Current(), func() S { return normal() })
				}))
			}))
		case "rerun-inner-for-with-probed-post":
			// ONE inner For value WITH a post statement, run once per outer iteration; the depth is probed inside the post statements
			col := 0
			inner := seq.For(func() bool { return col < 3 && i < n }, func() { probe(); col++ }, seq.Delay(func() S {
				j := i
				i++
				if j%gap == 0 {
					return seq.Bind(j, func() S { return normal() })
				}
				return normal()
			}))
			return seq.For(func() bool { return i < n }, func() { probe(); col = 0 }, inner)
		case "rerun-inner", "rerun-inner-combine", "rerun-three-levels":
			// The inner loop is ONE Seq value, built once and run once per outer iteration (what the optimiser makes of
			// `for rows() { for cols() { if keep() { Yield } } }`): rows of 3 columns, most rows yield nothing, so the
			// non-yielding stretch spans many runs of the same inner loop value.
			col := 0
			step := seq.Delay(func() S {
				probe()
				j := i
				i++
				col++
				if j%gap == 0 {
					return seq.Bind(j, func() S { return normal() })
				}
				return normal()
			})
			inner := seq.While(func() bool { return col < 3 && i < n }, step)
			switch form {
			case "rerun-inner":
				return seq.For(func() bool { probe(); return i < n }, func() { col = 0 }, inner)
			case "rerun-inner-combine":
				return seq.Loop(seq.Combine(inner, seq.Delay(func() S {
					col = 0
					if i >= n {
						return seq.Break[int]()
					}
					return normal()
				})))
			default:
				rows := 0
				mid := seq.For(func() bool { return rows < 2 && i < n }, func() { col = 0 }, seq.Combine(inner, seq.Delay(func() S { rows++; return normal() })))
				return seq.For(func() bool { return i < n }, func() { rows, col = 0, 0 }, mid)
			}
		}
		panic("form " + form)
	}))
}

// delegate wraps inner d times the way `for v := range inner { Yield(v) }` compiles.
func delegate(inner seq.Iterator[int], d int) seq.Iterator[int] {
	type S = seq.Seq[int]
	for ; d > 0; d-- {
		it := inner
		inner = seq.Start(seq.Delay(func() S {
			return seq.While(it.MoveNext, seq.Delay(func() S {
				v := it.Current()
				return seq.Bind(v, func() S { return seq.Normal[int]() })
			}))
		}))
	}
	return inner
}

var c17Forms = []string{"for-post", "while", "loop-break", "for-continue", "combine-body", "nested", "rerun-inner", "rerun-inner-combine", "rerun-three-levels", "rerun-inner-for-with-probed-post", "body-advances-other-generator", "body-delegates-to-empty-generators"}

// measure returns, over all advances, the largest (deepest probe - first probe of that advance).
func measureC17(cs c17Case, yields int) (growth int, base int, delivered []int) {
	var depths []int
	calls := 0
	stride := cs.Gap/7 + 1
	probe := func() {
		// sample: every call up to 64, then powers of two and multiples of gap/7
		calls++
		if calls <= 64 || calls&(calls-1) == 0 || calls%stride == 0 {
			depths = append(depths, stackDepth())
		}
	}
	n := cs.Gap * yields
	it := delegate(filterGen(cs.Form, n, cs.Gap, probe), cs.Depth)
	for it.MoveNext() {
		delivered = append(delivered, it.Current())
		if len(depths) > 0 {
			lo, hi := depths[0], depths[0]
			for _, d := range depths {
				if d > hi {
					hi = d
				}
				if d < lo {
					lo = d
				}
			}
			if hi-depths[0] > growth {
				growth = hi - depths[0]
			}
			if base == 0 {
				base = depths[0]
			}
		}
		depths = depths[:0]
		calls = 0
	}
	return
}

func checkC17(t testing.TB, c *collector, cs c17Case) *Replay {
	growth, base, delivered := measureC17(cs, 3)
	c.eval(fmt.Sprintf("%+v", cs), cs.Gap >= 100, "form:"+cs.Form)
	want := []int{0, cs.Gap, 2 * cs.Gap}
	if fmt.Sprint(delivered) != fmt.Sprint(want) {
		return &Replay{Property: "C17", Kind: "stack", Input: cs,
			What: fmt.Sprintf("%+v delivered %v, want %v", cs, delivered, want)}
	}
	if growth > stackSlackK {
		return &Replay{Property: "C17", Kind: "stack", Input: cs,
			What: fmt.Sprintf("%+v: call stack grew by %d frames between two yields (first probe at depth %d; bound %d independent of the gap)", cs, growth, base, stackSlackK)}
	}
	return nil
}

func TestC17Table(t *testing.T) {
	c := coll("C17")
	c.rule(ruleC17)
	gaps := []int{1, 10, 100, 1000, 10000}
	if thorough() {
		gaps = append(gaps, 1000000)
	}
	reported := map[string]bool{}
	for _, f := range c17Forms {
		for _, g := range gaps {
			for _, d := range []int{0, 1, 4} {
				cs := c17Case{Form: f, Gap: g, Depth: d}
				if rep := checkC17(t, c, cs); rep != nil && !reported[f] {
					reported[f] = true
					violation(t, rep)
				}
				if g == 1000 && d == 1 {
					gr, base, _ := measureC17(cs, 3)
					c.sample(map[string]any{"case": cs, "growth_frames": gr, "first_probe_depth": base})
				}
			}
		}
	}
	c.markExhaustive(fmt.Sprintf("%d forms x gaps %v x delegation depths {0,1,4}", len(c17Forms), gaps))
}

// delegation: depth grows at most linearly with the nesting depth d
func TestC17DelegationLinear(t *testing.T) {
	c := coll("C17")
	c.rule("delegation: first-probe depth as a function of delegation depth d in 0..8 must be affine (depth(d) - depth(0) <= b*d with b = depth(1)-depth(0) + 2)")
	var base []int
	for d := 0; d <= 8; d++ {
		_, b, _ := measureC17(c17Case{Form: "for-post", Gap: 10, Depth: d}, 2)
		base = append(base, b)
		c.eval(fmt.Sprint("deleg", d), d >= 2, "delegation")
	}
	per := base[1] - base[0] + 2
	for d := 2; d <= 8; d++ {
		if base[d]-base[0] > per*d {
			violation(t, &Replay{Property: "C17", Kind: "delegation", Input: base,
				What: fmt.Sprintf("stack depth grows faster than linearly with delegation depth: depths by d = %v", base)})
			break
		}
	}
	c.sample(map[string]any{"first_probe_depth_by_delegation_depth": base})
}

func TestC17Rapid(t *testing.T) {
	c := coll("C17")
	c.rule(ruleC17)
	var last *Replay
	// rapid.Check ends the test goroutine on failure (FailNow): report from a deferred call
	defer func() {
		if last != nil {
			violation(t, last)
		}
	}()
	rapid.Check(t, func(rt *rapid.T) {
		cs := c17Case{
			Form:  rapid.SampledFrom(c17Forms).Draw(rt, "form"),
			Gap:   rapid.IntRange(1, 3000).Draw(rt, "gap"),
			Depth: rapid.IntRange(0, 8).Draw(rt, "depth"),
		}
		if rep := checkC17(t, c, cs); rep != nil {
			last = rep
			rt.Fatalf("%s", rep.What)
		}
	})
}
