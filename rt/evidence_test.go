package rt

import (
	"crypto/sha1"
	"encoding/hex"
	"encoding/json"
	"fmt"
	"os"
	"path/filepath"
	"sort"
	"strconv"
	"sync"
	"testing"
	"time"
)

// collector gathers what a check actually covered; it is written as an evidence *part*
// (merged by /verif/check with the parts of engine T into evidence/<id>.json).
type collector struct {
	mu          sync.Mutex
	id          string
	start       time.Time
	evaluations int
	seen        map[[8]byte]struct{} // hashes of distinct non-trivial cases
	samples     []any
	rules       []string
	classes     map[string]int
	exhaustive  []string
	extra       map[string]any
	violations  int
}

var collectors = map[string]*collector{}
var collMu sync.Mutex

func coll(id string) *collector {
	collMu.Lock()
	defer collMu.Unlock()
	c := collectors[id]
	if c == nil {
		c = &collector{id: id, start: time.Now(), seen: map[[8]byte]struct{}{}, classes: map[string]int{}, extra: map[string]any{}}
		collectors[id] = c
	}
	return c
}

func (c *collector) rule(s string) {
	c.mu.Lock()
	defer c.mu.Unlock()
	for _, r := range c.rules {
		if r == s {
			return
		}
	}
	c.rules = append(c.rules, s)
}

// eval counts one executed case; key identifies it; nontrivial says whether it counts by the rule.
func (c *collector) eval(key string, nontrivial bool, classes ...string) {
	c.mu.Lock()
	defer c.mu.Unlock()
	c.evaluations++
	for _, k := range classes {
		c.classes[k]++
	}
	if nontrivial {
		h := sha1.Sum([]byte(key))
		var k [8]byte
		copy(k[:], h[:8])
		c.seen[k] = struct{}{}
	}
}

func (c *collector) sample(v any) {
	c.mu.Lock()
	defer c.mu.Unlock()
	if len(c.samples) < 6 {
		c.samples = append(c.samples, v)
	}
}

func (c *collector) markExhaustive(what string) {
	c.mu.Lock()
	defer c.mu.Unlock()
	c.exhaustive = append(c.exhaustive, what)
}

func (c *collector) set(k string, v any) {
	c.mu.Lock()
	defer c.mu.Unlock()
	c.extra[k] = v
}

func tier() string {
	if os.Getenv("VERIF_TIER") == "thorough" {
		return "thorough"
	}
	return "quick"
}

func thorough() bool { return tier() == "thorough" }

func seedEnv() int {
	n, _ := strconv.Atoi(os.Getenv("VERIF_SEED"))
	return n
}

func evidenceDir() string {
	if d := os.Getenv("VERIF_EVIDENCE_DIR"); d != "" {
		return d
	}
	return "/verif/evidence"
}

func replayDir() string {
	if d := os.Getenv("VERIF_REPLAY_DIR"); d != "" {
		return d
	}
	return "/verif/replays"
}

func (c *collector) write() {
	c.mu.Lock()
	defer c.mu.Unlock()
	cls := map[string]int{}
	for k, v := range c.classes {
		cls[k] = v
	}
	sort.Strings(c.exhaustive)
	part := map[string]any{
		"engine":              "R",
		"evaluations":         c.evaluations,
		"distinct_nontrivial": len(c.seen),
		"rules":               c.rules,
		"samples":             c.samples,
		"classes":             cls,
		"exhaustive_parts":    c.exhaustive,
		"violations":          c.violations,
		"wall_s":              time.Since(c.start).Seconds(),
		"extra":               c.extra,
	}
	dir := filepath.Join(evidenceDir(), "parts")
	_ = os.MkdirAll(dir, 0o755)
	b, _ := json.MarshalIndent(part, "", " ")
	_ = os.WriteFile(filepath.Join(dir, c.id+".R.json"), b, 0o644)
}

// Replay is the replay-file format of engine R.
type Replay struct {
	Property string   `json:"property"`
	Kind     string   `json:"kind"` // which comparison to re-run
	Term     *Term    `json:"term,omitempty"`
	Terms    []*Term  `json:"terms,omitempty"`
	Ops      []Op     `json:"ops,omitempty"`
	Fuel     int      `json:"fuel,omitempty"`
	Input    any      `json:"input,omitempty"`
	What     string   `json:"what"`
	Got      []string `json:"got,omitempty"`
	Want     []string `json:"want,omitempty"`
	Engine   string   `json:"engine"`
}

// violation writes the replay file, prints the VIOLATION line and fails the test.
func violation(t testing.TB, r *Replay) {
	t.Helper()
	r.Engine = "R"
	c := coll(r.Property)
	c.mu.Lock()
	c.violations++
	c.mu.Unlock()
	path := writeReplay(r)
	fmt.Printf("VIOLATION property=%s replay=%s\n", r.Property, path)
	t.Errorf("%s: %s\n got: %v\nwant: %v", r.Property, r.What, r.Got, r.Want)
}

func writeReplay(r *Replay) string {
	b, _ := json.MarshalIndent(r, "", " ")
	h := sha1.Sum(b)
	dir := filepath.Join(replayDir(), r.Property)
	_ = os.MkdirAll(dir, 0o755)
	path := filepath.Join(dir, "R-"+r.Kind+"-"+hex.EncodeToString(h[:5])+".json")
	_ = os.WriteFile(path, b, 0o644)
	return path
}

func TestMain(m *testing.M) {
	code := m.Run()
	for _, c := range collectors {
		c.write()
	}
	os.Exit(code)
}
