package rt

import (
	"fmt"

	"pgregory.net/rapid"
)

// ---------------------------------------------------------------------------------------------
// numbering: give every script/cond a distinct event id so traces identify the node that ran

func number(ts ...*Term) {
	n := 0
	var walk func(t *Term)
	walk = func(t *Term) {
		if t == nil {
			return
		}
		if t.S != nil {
			n++
			t.S.Ev = n
		}
		if t.Cond != nil {
			n++
			t.Cond.Ev = n
		}
		if t.Post != nil {
			n++
			t.Post.Ev = n
		}
		if t.Val != nil && !t.Val.Dyn && !t.Val.Recv && t.Val.Const == 0 {
			n++
			t.Val.Const = n // constants identify the bind that produced them
		}
		walk(t.A)
		walk(t.B)
	}
	for _, t := range ts {
		walk(t)
	}
}

func clone(t *Term) *Term {
	if t == nil {
		return nil
	}
	c := *t
	if t.Val != nil {
		v := *t.Val
		c.Val = &v
	}
	if t.S != nil {
		s := *t.S
		c.S = &s
	}
	if t.Cond != nil {
		s := *t.Cond
		c.Cond = &s
	}
	if t.Post != nil {
		s := *t.Post
		c.Post = &s
	}
	c.A = clone(t.A)
	c.B = clone(t.B)
	return &c
}

// ---------------------------------------------------------------------------------------------
// exhaustive enumeration of all terms with exactly n nodes over a small script alphabet

type alphabet struct {
	scripts []*Script // thunk scripts (nil = thunk without effect)
	conds   []*Cond
	posts   []*Script // nil = no post
	vals    []*Val
	leaves  []string
}

var fullAlphabet = alphabet{
	scripts: []*Script{{}, {Op: "inc"}, {Op: "self"}},
	conds:   []*Cond{{Lt: 1}, {Lt: 2}, {Lt: 1, Inc: true}, {Lt: 2, Inc: true}},
	posts:   []*Script{nil, {Op: "inc"}},
	vals:    []*Val{{}, {Dyn: true}},
	leaves:  []string{"normal", "break", "continue", "return", "retval"},
}

var smallAlphabet = alphabet{
	scripts: []*Script{{Op: "inc"}},
	conds:   []*Cond{{Lt: 2}, {Lt: 2, Inc: true}},
	posts:   []*Script{nil, {Op: "inc"}},
	vals:    []*Val{{Dyn: true}},
	leaves:  []string{"normal", "break", "continue", "return", "retval"},
}

// enumTerms calls f for every term with exactly n nodes. Terms are freshly allocated and numbered.
func (al alphabet) enumTerms(n int, f func(*Term)) {
	var rec func(n int, emit func(*Term))
	rec = func(n int, emit func(*Term)) {
		if n == 1 {
			for _, k := range al.leaves {
				if k == "retval" {
					emit(&Term{K: k, Val: &Val{Const: 7}})
				} else {
					emit(&Term{K: k})
				}
			}
			return
		}
		// unary constructors over a child of n-1 nodes
		rec(n-1, func(a *Term) {
			for _, s := range al.scripts {
				emit(&Term{K: "delay", S: s, A: a})
				for _, v := range al.vals {
					emit(&Term{K: "bind", Val: v, S: s, A: a})
					emit(&Term{K: "bindrecv", Val: v, S: s, A: a})
				}
			}
			if guarded(a) {
				emit(&Term{K: "loop", A: a})
			}
			emit(&Term{K: "twice", A: a})
			for _, c := range al.conds {
				emit(&Term{K: "while", Cond: c, A: a})
				for _, p := range al.posts {
					emit(&Term{K: "for", Cond: c, Post: p, A: a})
				}
			}
			for _, p := range al.posts {
				if p != nil || guarded(a) {
					emit(&Term{K: "for", Post: p, A: a})
				}
			}
		})
		// combine: split n-1 nodes between the two children
		for i := 1; i <= n-2; i++ {
			rec(i, func(a *Term) {
				rec(n-1-i, func(b *Term) {
					emit(&Term{K: "combine", A: a, B: b})
				})
			})
		}
	}
	rec(n, func(t *Term) {
		c := clone(t)
		number(c)
		f(c)
	})
}

// guarded reports whether running t always executes a script (and so burns fuel) before it can
// complete: bodies of condition-less, post-less loops must be guarded, otherwise the term is a
// genuine `for {}` that neither side can finish.
func guarded(t *Term) bool {
	switch t.K {
	case "delay", "bind", "bindrecv":
		return t.S != nil
	case "combine", "twice":
		return guarded(t.A)
	case "while", "if":
		return true // the condition burns fuel
	case "for":
		return t.Cond != nil
	}
	return false
}

// ---------------------------------------------------------------------------------------------
// rapid generators

type termOpts struct {
	maxDepth int
	panics   bool // allow panicking scripts (C18)
	noDyn    bool
}

func drawScript(t *rapid.T, o termOpts, label string) *Script {
	ops := []string{"", "", "inc", "inc", "reset", "self"}
	if o.panics {
		ops = append(ops, "panic", "rtpanic")
	}
	return &Script{
		Op:  rapid.SampledFrom(ops).Draw(t, label+".op"),
		Var: rapid.IntRange(0, nVars-1).Draw(t, label+".var"),
	}
}

func drawCond(t *rapid.T, o termOpts, label string) *Cond {
	c := &Cond{
		Var: rapid.IntRange(0, nVars-1).Draw(t, label+".var"),
		Lt:  rapid.IntRange(0, 4).Draw(t, label+".lt"),
		Inc: rapid.Bool().Draw(t, label+".inc"),
	}
	if o.panics {
		c.Panic = rapid.IntRange(0, 5).Draw(t, label+".panic") == 0
	}
	return c
}

func drawVal(t *rapid.T, o termOpts, label string) *Val {
	v := &Val{}
	if !o.noDyn {
		v.Dyn = rapid.Bool().Draw(t, label+".dyn")
		v.Var = rapid.IntRange(0, nVars-1).Draw(t, label+".var")
		v.Recv = rapid.IntRange(0, 3).Draw(t, label+".recv") == 0
	}
	return v
}

func drawTerm(t *rapid.T, o termOpts, depth int, label string) *Term {
	kinds := []string{"normal", "break", "continue", "return", "retval"}
	if depth < o.maxDepth {
		inner := []string{"delay", "delay", "bind", "bind", "bind", "bindrecv", "combine", "combine", "combine",
			"for", "for", "while", "loop", "if", "if", "twice"}
		kinds = append(kinds, inner...)
		if depth < 3 {
			// near the root compound terms dominate, otherwise most drawn terms are a single leaf
			for i := 0; i < 5; i++ {
				kinds = append(kinds, inner...)
			}
		}
	}
	k := rapid.SampledFrom(kinds).Draw(t, label+".k")
	r := &Term{K: k}
	switch k {
	case "retval":
		r.Val = drawVal(t, o, label+".v")
	case "delay":
		if rapid.IntRange(0, 3).Draw(t, label+".hasS") > 0 {
			r.S = drawScript(t, o, label+".s")
		}
		r.A = drawTerm(t, o, depth+1, label+"a")
	case "bind", "bindrecv":
		r.Val = drawVal(t, o, label+".v")
		if rapid.IntRange(0, 3).Draw(t, label+".hasS") > 0 {
			r.S = drawScript(t, o, label+".s")
		}
		r.A = drawTerm(t, o, depth+1, label+"a")
	case "combine":
		r.A = drawTerm(t, o, depth+1, label+"a")
		r.B = drawTerm(t, o, depth+1, label+"b")
	case "for":
		if rapid.IntRange(0, 4).Draw(t, label+".hasC") > 0 {
			r.Cond = drawCond(t, o, label+".c")
		}
		if rapid.IntRange(0, 2).Draw(t, label+".hasP") > 0 {
			r.Post = drawScript(t, o, label+".p")
		}
		r.A = drawTerm(t, o, depth+1, label+"a")
		if r.Cond == nil && r.Post == nil && !guarded(r.A) {
			r.A = &Term{K: "delay", S: drawScript(t, o, label+".g"), A: r.A}
		}
	case "while":
		r.Cond = drawCond(t, o, label+".c")
		r.A = drawTerm(t, o, depth+1, label+"a")
	case "if":
		r.Cond = drawCond(t, o, label+".c")
		r.A = drawTerm(t, o, depth+1, label+"a")
		r.B = drawTerm(t, o, depth+1, label+"b")
	case "loop", "twice":
		r.A = drawTerm(t, o, depth+1, label+"a")
		if !guarded(r.A) {
			r.A = &Term{K: "delay", S: drawScript(t, o, label+".g"), A: r.A}
		}
	}
	return r
}

func genTerm(o termOpts) *rapid.Generator[*Term] {
	return rapid.Custom(func(t *rapid.T) *Term {
		tm := drawTerm(t, o, 0, "t")
		number(tm)
		return tm
	})
}

func genOps(maxLen int) *rapid.Generator[[]Op] {
	one := rapid.Custom(func(t *rapid.T) Op {
		k := rapid.SampledFrom([]string{"mn", "mn", "mn", "mn", "cur", "cur", "send", "send", "res"}).Draw(t, "op")
		o := Op{K: k}
		if k == "send" {
			o.V = rapid.IntRange(1, 3).Draw(t, "v")
		}
		return o
	})
	return rapid.SliceOfN(one, 1, maxLen)
}

func opsString(ops []Op) string {
	s := ""
	for i, o := range ops {
		if i > 0 {
			s += " "
		}
		s += o.String()
	}
	return s
}

func mkOps(spec ...any) []Op {
	var ops []Op
	for _, s := range spec {
		switch s := s.(type) {
		case string:
			ops = append(ops, Op{K: s})
		case int:
			ops = append(ops, Op{K: "send", V: s})
		default:
			panic(fmt.Sprint("bad op spec ", s))
		}
	}
	return ops
}
