package rt

import (
	"errors"
	"fmt"
	"math"
	"reflect"
	"sort"
	"testing"
	"unicode/utf8"

	"github.com/goghcrow/go-co/seq"
	"pgregory.net/rapid"
)

// C10 — built-in range iterators equal Go's range for every input.
// Oracle: a native range loop over the same value in the same process (mutation scripts run in
// lockstep); for maps multiset equality / the spec's validity predicate under mutation.

const ruleC10 = "inputs of the New*Iter constructors compared with a native range loop; non-trivial = string with a multi-byte " +
	"or invalid sequence / integer n >= 2 / slice or map mutation landing ahead of the cursor / nil interface key or " +
	"value / channel with >= 2 values; distinct by hash of kind + input + mutation script"

type kv struct {
	K, V any
}

func nativeString(s string) (out []kv) {
	for i, r := range s {
		out = append(out, kv{i, r})
	}
	return
}

func iterString(s string) (out []kv) {
	it := seq.NewStringIter(s)
	for it.MoveNext() {
		out = append(out, kv{it.Current().Key, it.Current().Val})
	}
	return
}

func checkString(t testing.TB, c *collector, s string, report *int) {
	want := nativeString(s)
	var got []kv
	var pv any
	func() {
		defer func() { pv = recover() }()
		got = iterString(s)
	}()
	nt := len(s) != utf8.RuneCountInString(s) || !utf8.ValidString(s)
	c.eval("str"+s, nt, "string")
	if pv != nil || !reflect.DeepEqual(got, want) {
		if *report < 3 {
			*report++
			violation(t, &Replay{Property: "C10", Kind: "string", Input: fmt.Sprintf("%q", s),
				What: fmt.Sprintf("NewStringIter(%q): got %v (panic %v), native range %v", s, got, pv, want),
				Got:  []string{fmt.Sprint(got)}, Want: []string{fmt.Sprint(want)}})
		}
	}
}

// hostile UTF-8 alphabet: ASCII, 2/3/4-byte runes, boundary code points, a correctly encoded U+FFFD, stray continuation
// and lead bytes, truncated sequences, surrogates, overlong encodings, code points beyond U+10FFFF
var hostilePieces = []string{"a", "é", "€", "😀", "\x80", "\xff", "\xc3", "\xed\xa0\x80", "\xf0\x9f", "\x00",
	"\uFFFD", "\xef\xbf", "\u07ff", "\u0800", "\uffff", "\U0010ffff", "\xc0\x80", "\xe0\x80\x80", "\xf4\x90\x80\x80", "\x7f"}

func hostileBytes() []byte {
	seen := map[byte]bool{}
	var out []byte
	for _, p := range hostilePieces {
		for i := 0; i < len(p); i++ {
			if !seen[p[i]] {
				seen[p[i]] = true
				out = append(out, p[i])
			}
		}
	}
	sort.Slice(out, func(i, j int) bool { return out[i] < out[j] })
	return out
}

func TestC10StringExhaustive(t *testing.T) {
	c := coll("C10")
	c.rule(ruleC10)
	report := 0
	n := 0
	maxPieces, maxBytes := 3, 3
	if thorough() {
		maxPieces, maxBytes = 4, 4
	}
	var rec func(prefix string, depth int, alphabet []string, max int)
	rec = func(prefix string, depth int, alphabet []string, max int) {
		n++
		checkString(t, c, prefix, &report)
		if depth == max {
			return
		}
		for _, p := range alphabet {
			rec(prefix+p, depth+1, alphabet, max)
		}
	}
	rec("", 0, hostilePieces, maxPieces)
	var bs []string
	for _, b := range hostileBytes() {
		bs = append(bs, string([]byte{b}))
	}
	rec("", 0, bs, maxBytes)
	c.markExhaustive(fmt.Sprintf("all %d strings of <= %d pieces over %d hostile pieces and of <= %d bytes over their %d distinct bytes", n, maxPieces, len(hostilePieces), maxBytes, len(bs)))
	c.sample(map[string]any{"kind": "string", "input": "a\xc3€\xff", "pairs": fmt.Sprint(nativeString("a\xc3€\xff"))})
}

func TestC10StringRapid(t *testing.T) {
	c := coll("C10")
	c.rule(ruleC10)
	var last *Replay
	// rapid.Check ends the test goroutine on failure (FailNow): report from a deferred call
	defer func() {
		if last != nil {
			violation(t, last)
		}
	}()
	rapid.Check(t, func(rt *rapid.T) {
		var s string
		if rapid.Bool().Draw(rt, "bytes") {
			s = string(rapid.SliceOfN(rapid.Byte(), 0, 64).Draw(rt, "b"))
		} else {
			parts := rapid.SliceOfN(rapid.SampledFrom(hostilePieces), 0, 24).Draw(rt, "p")
			for _, p := range parts {
				s += p
			}
		}
		rep := 3 // suppress direct reporting; rapid shrinks
		want := nativeString(s)
		var got []kv
		var pv any
		func() {
			defer func() { pv = recover() }()
			got = iterString(s)
		}()
		_ = rep
		c.eval("str"+s, len(s) != utf8.RuneCountInString(s) || !utf8.ValidString(s), "string")
		if pv != nil || !reflect.DeepEqual(got, want) {
			last = &Replay{Property: "C10", Kind: "string", Input: fmt.Sprintf("%q", s),
				What: fmt.Sprintf("NewStringIter(%q): got %v (panic %v), native range %v", s, got, pv, want),
				Got:  []string{fmt.Sprint(got)}, Want: []string{fmt.Sprint(want)}}
			rt.Fatalf("%s", last.What)
		}
	})
}

func TestC10Integer(t *testing.T) {
	c := coll("C10")
	c.rule(ruleC10)
	reported := 0
	for n := -3; n <= 130; n++ {
		var want []kv
		for i := range n {
			want = append(want, kv{i, nil})
		}
		var got []kv
		it := seq.NewIntegerIter(n)
		for it.MoveNext() && len(got) < 200 {
			got = append(got, kv{it.Current().Key, nil})
		}
		c.eval(fmt.Sprint("int", n), n >= 2, "integer")
		if !reflect.DeepEqual(got, want) && reported < 2 {
			reported++
			violation(t, &Replay{Property: "C10", Kind: "integer", Input: n,
				What: fmt.Sprintf("NewIntegerIter(%d): got keys %v, native range %v", n, got, want),
				Got:  []string{fmt.Sprint(got)}, Want: []string{fmt.Sprint(want)}})
		}
	}
	c.markExhaustive("integers -3..130")
}

// ---- slices with mutation scripts in lockstep ---------------------------------------------------

type sliceMut struct {
	Step int    `json:"step"` // executed inside iteration number Step (0-based)
	Op   string `json:"op"`   // write, append, reslice, nilvar
	Idx  int    `json:"idx,omitempty"`
	Val  int    `json:"val,omitempty"`
}

type sliceCase struct {
	Init []int      `json:"init"`
	Cap  int        `json:"cap"`
	Muts []sliceMut `json:"muts"`
}

func (sc sliceCase) fresh() []int {
	s := make([]int, len(sc.Init), len(sc.Init)+sc.Cap)
	copy(s, sc.Init)
	return s
}

func applySliceMut(s *[]int, m sliceMut) {
	switch m.Op {
	case "write":
		full := (*s)[:cap(*s)]
		if m.Idx < len(full) {
			full[m.Idx] = m.Val
		}
	case "append":
		*s = append(*s, m.Val)
	case "reslice":
		if m.Idx <= cap(*s) {
			*s = (*s)[:m.Idx]
		}
	case "nilvar":
		*s = nil
	}
}

func runSliceCase(sc sliceCase) (got, want []kv, nontrivial bool) {
	{
		s := sc.fresh()
		step := 0
		for i, v := range s {
			want = append(want, kv{i, v})
			for _, m := range sc.Muts {
				if m.Step == step {
					if m.Op == "write" && m.Idx > i {
						nontrivial = true
					}
					applySliceMut(&s, m)
				}
			}
			step++
		}
	}
	{
		s := sc.fresh()
		step := 0
		it := seq.NewSliceIter(s)
		for it.MoveNext() {
			got = append(got, kv{it.Current().Key, it.Current().Val})
			for _, m := range sc.Muts {
				if m.Step == step {
					applySliceMut(&s, m)
				}
			}
			step++
		}
	}
	return
}

func TestC10Slice(t *testing.T) {
	c := coll("C10")
	c.rule(ruleC10)
	var last *Replay
	// rapid.Check ends the test goroutine on failure (FailNow): report from a deferred call
	defer func() {
		if last != nil {
			violation(t, last)
		}
	}()
	rapid.Check(t, func(rt *rapid.T) {
		sc := sliceCase{
			Init: rapid.SliceOfN(rapid.IntRange(0, 9), 0, 8).Draw(rt, "init"),
			Cap:  rapid.IntRange(0, 3).Draw(rt, "cap"),
		}
		nm := rapid.IntRange(0, 4).Draw(rt, "nm")
		for i := 0; i < nm; i++ {
			sc.Muts = append(sc.Muts, sliceMut{
				Step: rapid.IntRange(0, 7).Draw(rt, "step"),
				Op:   rapid.SampledFrom([]string{"write", "write", "append", "reslice", "nilvar"}).Draw(rt, "op"),
				Idx:  rapid.IntRange(0, 10).Draw(rt, "idx"),
				Val:  rapid.IntRange(100, 109).Draw(rt, "val"),
			})
		}
		got, want, nt := runSliceCase(sc)
		c.eval(fmt.Sprintf("slice%+v", sc), nt && len(sc.Init) >= 2, "slice")
		if !reflect.DeepEqual(got, want) {
			last = &Replay{Property: "C10", Kind: "slice", Input: sc,
				What: fmt.Sprintf("NewSliceIter %+v: got %v, native range %v", sc, got, want),
				Got:  []string{fmt.Sprint(got)}, Want: []string{fmt.Sprint(want)}}
			rt.Fatalf("%s", last.What)
		}
	})
	c.sample(map[string]any{"kind": "slice", "case": sliceCase{Init: []int{1, 2, 3}, Cap: 1, Muts: []sliceMut{{Step: 0, Op: "write", Idx: 2, Val: 100}, {Step: 1, Op: "append", Val: 101}}}})
}

// generic element types incl. nil interface elements
func TestC10SliceAny(t *testing.T) {
	c := coll("C10")
	c.rule(ruleC10)
	cases := [][]any{nil, {}, {nil}, {1, nil, "x", error(nil), errors.New("e")}, {nil, nil}}
	for _, cs := range cases {
		var want, got []kv
		for i, v := range cs {
			want = append(want, kv{i, v})
		}
		var pv any
		func() {
			defer func() { pv = recover() }()
			it := seq.NewSliceIter(cs)
			for it.MoveNext() {
				got = append(got, kv{it.Current().Key, it.Current().Val})
			}
		}()
		c.eval(fmt.Sprintf("sliceany%#v", cs), len(cs) >= 2, "slice-any")
		if pv != nil || !reflect.DeepEqual(got, want) {
			violation(t, &Replay{Property: "C10", Kind: "slice-any", Input: fmt.Sprintf("%#v", cs),
				What: fmt.Sprintf("NewSliceIter(%#v): got %v (panic %v) want %v", cs, got, pv, want)})
		}
	}
}

// ---- maps ---------------------------------------------------------------------------------------

type mapMut struct {
	Step int    `json:"step"`
	Op   string `json:"op"` // delete, insert, update
	Key  int    `json:"key"`
	Val  int    `json:"val,omitempty"`
}

type mapCase struct {
	Keys []int    `json:"keys"` // initial keys (values = key*10)
	Muts []mapMut `json:"muts"`
}

// checkMapCase runs the iterator with the mutation script and checks the spec's validity predicate.
func checkMapCase(mc mapCase) (err string, nontrivial bool, visited []kv) {
	m := map[int]int{}
	for _, k := range mc.Keys {
		m[k] = k * 10
	}
	initial := map[int]bool{}
	for k := range m {
		initial[k] = true
	}
	deleted := map[int]bool{}
	inserted := map[int]bool{}
	seen := map[int]bool{}
	it := seq.NewMapIter(m)
	step := 0
	for it.MoveNext() {
		k, v := it.Current().Key, it.Current().Val
		visited = append(visited, kv{k, v})
		if seen[k] {
			return fmt.Sprintf("key %d visited twice", k), nontrivial, visited
		}
		seen[k] = true
		cur, present := m[k]
		if !present {
			return fmt.Sprintf("key %d visited although it was deleted before being reached", k), nontrivial, visited
		}
		if cur != v {
			return fmt.Sprintf("key %d visited with value %d, map holds %d", k, v, cur), nontrivial, visited
		}
		for _, mu := range mc.Muts {
			if mu.Step != step {
				continue
			}
			switch mu.Op {
			case "delete":
				if _, ok := m[mu.Key]; ok && !inserted[mu.Key] {
					if !seen[mu.Key] {
						nontrivial = true
					}
					delete(m, mu.Key)
					deleted[mu.Key] = true
				}
			case "insert":
				// only fresh keys (a key deleted and re-created may legitimately be produced again)
				if !initial[mu.Key] && !deleted[mu.Key] {
					m[mu.Key] = mu.Val
					inserted[mu.Key] = true
				}
			case "update":
				if _, ok := m[mu.Key]; ok {
					if !seen[mu.Key] {
						nontrivial = true
					}
					m[mu.Key] = mu.Val
				}
			}
		}
		step++
		if step > 100 {
			return "iteration does not end", nontrivial, visited
		}
	}
	for k := range initial {
		if !deleted[k] && !seen[k] {
			return fmt.Sprintf("key %d was present during the whole loop but never visited", k), nontrivial, visited
		}
	}
	return "", nontrivial, visited
}

func TestC10MapMutation(t *testing.T) {
	c := coll("C10")
	c.rule(ruleC10)
	var last *Replay
	// rapid.Check ends the test goroutine on failure (FailNow): report from a deferred call
	defer func() {
		if last != nil {
			violation(t, last)
		}
	}()
	rapid.Check(t, func(rt *rapid.T) {
		mc := mapCase{Keys: rapid.SliceOfNDistinct(rapid.IntRange(0, 12), 0, 10, rapid.ID[int]).Draw(rt, "keys")}
		nm := rapid.IntRange(0, 5).Draw(rt, "nm")
		for i := 0; i < nm; i++ {
			mc.Muts = append(mc.Muts, mapMut{
				Step: rapid.IntRange(0, 8).Draw(rt, "step"),
				Op:   rapid.SampledFrom([]string{"delete", "delete", "insert", "update"}).Draw(rt, "op"),
				Key:  rapid.IntRange(0, 16).Draw(rt, "key"),
				Val:  rapid.IntRange(1000, 1009).Draw(rt, "val"),
			})
		}
		var err string
		var nt bool
		var vis []kv
		var pv any
		func() {
			defer func() { pv = recover() }()
			err, nt, vis = checkMapCase(mc)
		}()
		if pv != nil {
			err = fmt.Sprint("panic: ", pv)
		}
		c.eval(fmt.Sprintf("map%+v", mc), nt || len(mc.Keys) >= 2, "map-int")
		if err != "" {
			last = &Replay{Property: "C10", Kind: "map", Input: mc, What: fmt.Sprintf("NewMapIter %+v: %s (visited %v)", mc, err, vis)}
			rt.Fatalf("%s", last.What)
		}
	})
	c.sample(map[string]any{"kind": "map", "case": mapCase{Keys: []int{1, 2, 3}, Muts: []mapMut{{Step: 0, Op: "delete", Key: 2}}}})
}

// multiset equality without mutation over key/value types incl. nil interface keys and values
func mapPairs[K comparable, V any](m map[K]V) (native, got []string, pv any) {
	for k, v := range m {
		native = append(native, fmt.Sprintf("%#v=%#v", k, v))
	}
	func() {
		defer func() { pv = recover() }()
		it := seq.NewMapIter(m)
		for it.MoveNext() {
			got = append(got, fmt.Sprintf("%#v=%#v", it.Current().Key, it.Current().Val))
		}
	}()
	sort.Strings(native)
	sort.Strings(got)
	return
}

func TestC10MapTypes(t *testing.T) {
	c := coll("C10")
	c.rule(ruleC10)
	e1 := errors.New("e1")
	check := func(name string, native, got []string, pv any, nt bool) {
		c.eval("maptypes"+name+fmt.Sprint(native), nt, "map-types")
		if pv != nil || !reflect.DeepEqual(native, got) {
			violation(t, &Replay{Property: "C10", Kind: "map-types", Input: name,
				What: fmt.Sprintf("NewMapIter over %s: got %v (panic: %v), native range %v", name, got, pv, native),
				Got:  got, Want: native})
		}
	}
	{
		n, g, p := mapPairs(map[string]int{"a": 1, "b": 2, "": 0})
		check("map[string]int", n, g, p, true)
	}
	{
		n, g, p := mapPairs(map[int]any{1: nil, 2: "x", 3: 4})
		check("map[int]any with nil value", n, g, p, true)
	}
	{
		n, g, p := mapPairs(map[any]int{nil: 1, "k": 2, 3: 3})
		check("map[any]int with nil key", n, g, p, true)
	}
	{
		n, g, p := mapPairs(map[any]any{nil: nil})
		check("map[any]any{nil:nil}", n, g, p, true)
	}
	{
		n, g, p := mapPairs(map[string]error{"ok": nil, "bad": e1})
		check("map[string]error with nil error", n, g, p, true)
	}
	{
		n, g, p := mapPairs(map[error]string{nil: "nilkey", e1: "e1"})
		check("map[error]string with nil key", n, g, p, true)
	}
	{
		n, g, p := mapPairs(map[int]int(nil))
		check("nil map", n, g, p, false)
	}
	{
		// keys that are not equal to themselves: the value must come from the entry, not from a lookup
		nan := math.NaN()
		m := map[float64]int{1.5: 10}
		m[nan] = 7
		m[nan] = 8
		n, g, p := mapPairs(m)
		check("map[float64]int with two NaN keys", n, g, p, true)
	}
	{
		nan := math.NaN()
		m := map[any]any{"a": 1}
		m[nan] = "x"
		m[[2]float64{1, nan}] = "y"
		m[float32(float32(nan))] = nil
		n, g, p := mapPairs(m)
		check("map[any]any with NaN (and array containing NaN) keys", n, g, p, true)
	}
	{
		type key struct {
			F float64
			S string
		}
		m := map[key]string{{1, "a"}: "p"}
		m[key{math.NaN(), "n"}] = "q"
		n, g, p := mapPairs(m)
		check("map[struct{F float64;S string}]string with a NaN field", n, g, p, true)
	}
	{
		m := map[complex128]int{}
		m[complex(math.NaN(), 0)] = 3
		m[complex(1, 2)] = 4
		n, g, p := mapPairs(m)
		check("map[complex128]int with a NaN key", n, g, p, true)
	}
	{
		n, g, p := mapPairs(map[[2]int]struct{ A any }{{1, 2}: {nil}, {0, 0}: {3}})
		check("map[[2]int]struct{A any}", n, g, p, true)
	}
	c.sample(map[string]any{"kind": "map-types", "input": "map[any]int{nil:1,\"k\":2,3:3}"})
}

// ---- channels -----------------------------------------------------------------------------------

func TestC10Chan(t *testing.T) {
	c := coll("C10")
	c.rule(ruleC10)
	var last *Replay
	// rapid.Check ends the test goroutine on failure (FailNow): report from a deferred call
	defer func() {
		if last != nil {
			violation(t, last)
		}
	}()
	rapid.Check(t, func(rt *rapid.T) {
		vals := rapid.SliceOfN(rapid.IntRange(0, 5), 0, 8).Draw(rt, "vals")
		mode := rapid.SampledFrom([]string{"buffered-closed", "unbuffered-producer", "small-buffer-producer"}).Draw(rt, "mode")
		mk := func() <-chan int {
			switch mode {
			case "buffered-closed":
				ch := make(chan int, len(vals))
				for _, v := range vals {
					ch <- v
				}
				close(ch)
				return ch
			case "unbuffered-producer":
				ch := make(chan int)
				go func() {
					for _, v := range vals {
						ch <- v
					}
					close(ch)
				}()
				return ch
			default:
				ch := make(chan int, 1)
				go func() {
					for _, v := range vals {
						ch <- v
					}
					close(ch)
				}()
				return ch
			}
		}
		var want, got []int
		for v := range mk() {
			want = append(want, v)
		}
		it := seq.NewChanIter(mk())
		for it.MoveNext() {
			got = append(got, it.Current().Key)
		}
		c.eval(fmt.Sprint("chan", mode, vals), len(vals) >= 2, "chan")
		if !reflect.DeepEqual(got, want) {
			last = &Replay{Property: "C10", Kind: "chan", Input: map[string]any{"vals": vals, "mode": mode},
				What: fmt.Sprintf("NewChanIter(%s %v): got %v, native range %v", mode, vals, got, want)}
			rt.Fatalf("%s", last.What)
		}
	})
	c.sample(map[string]any{"kind": "chan", "vals": []int{1, 2, 3}, "mode": "unbuffered-producer"})
}

// "channel values until close", one receive per iteration: the range statement receives exactly one value per iteration
// and nothing ahead of demand, so after k iterations a pre-filled channel of n values still holds n-k values (observable
// through len(ch), by another receiver, or after the loop is left early).
func TestC10ChanDemand(t *testing.T) {
	c := coll("C10")
	c.rule("pre-filled buffered channels of n <= 8 values (closed or still open): after every advance of NewChanIter the channel's len must equal what it is after the same number of iterations of a native range; a second receiver taking values between two advances sees the same values as beside a native range; after leaving the loop early the rest is still in the channel")
	var last *Replay
	defer func() {
		if last != nil {
			violation(t, last)
		}
	}()
	rapid.Check(t, func(rt *rapid.T) {
		n := rapid.IntRange(0, 8).Draw(rt, "n")
		closed := rapid.Bool().Draw(rt, "closed")
		stopAfter := rapid.IntRange(0, n).Draw(rt, "stopAfter") // an open channel is never drained to the end (the range would block)
		if closed && rapid.Bool().Draw(rt, "drain") {
			stopAfter = n + 1
		}
		stealAt := rapid.IntRange(-1, n).Draw(rt, "stealAt") // iteration at which the body receives one more value itself
		mk := func() chan int {
			ch := make(chan int, n)
			for i := 0; i < n; i++ {
				ch <- 10 + i
			}
			if closed {
				close(ch)
			}
			return ch
		}
		var want, got []string
		// native
		{
			ch := mk()
			k := 0
			if stopAfter > 0 {
				for v := range ch {
					k++
					want = append(want, fmt.Sprint("v", v, "len", len(ch)))
					if k == stealAt && len(ch) > 0 {
						want = append(want, fmt.Sprint("stolen", <-ch))
					}
					if k == stopAfter || (!closed && len(ch) == 0) {
						break // (an open channel is never ranged past its last queued value: that would block)
					}
				}
			}
			want = append(want, fmt.Sprint("left", len(ch)))
		}
		{
			ch := mk()
			k := 0
			if stopAfter > 0 {
				for it := seq.NewChanIter((<-chan int)(ch)); it.MoveNext(); {
					v := it.Current().Key
					k++
					got = append(got, fmt.Sprint("v", v, "len", len(ch)))
					if k == stealAt && len(ch) > 0 {
						got = append(got, fmt.Sprint("stolen", <-ch))
					}
					if k == stopAfter || (!closed && len(ch) == 0) {
						break
					}
				}
			}
			got = append(got, fmt.Sprint("left", len(ch)))
		}
		c.eval(fmt.Sprint("chan-demand", n, closed, stopAfter, stealAt), n >= 2, "chan-demand")
		if !reflect.DeepEqual(got, want) {
			last = &Replay{Property: "C10", Kind: "chan-demand", Input: map[string]any{"n": n, "closed": closed, "stop_after": stopAfter, "steal_at": stealAt},
				What: fmt.Sprintf("NewChanIter over a pre-filled channel (n=%d closed=%v stop after %d, extra receive at %d): got %v, native range %v", n, closed, stopAfter, stealAt, got, want)}
			rt.Fatalf("%s", last.What)
		}
	})
}

// integer iterators over every integer type, including bounds that do not fit in an int: the loop is
// left after a few iterations (a range over a huge bound is always left by break)
func firstKeys[N interface {
	~int | ~int8 | ~int16 | ~int32 | ~int64 | ~uint | ~uint8 | ~uint16 | ~uint32 | ~uint64 | ~uintptr
}](n N, max int) (native, got []string) {
	// range over an integer n of type N visits N(0) .. n-1 (nothing for n <= 0); a type parameter has no
	// core type to range over, so the specification is spelled out
	cnt := 0
	for i := N(0); i < n; i++ {
		native = append(native, fmt.Sprintf("%T:%v", i, i))
		cnt++
		if cnt >= max {
			break
		}
	}
	it := seq.NewIntegerIter(n)
	for len(got) < max && it.MoveNext() {
		k := it.Current().Key
		got = append(got, fmt.Sprintf("%T:%v", k, k))
	}
	return
}

type myInt int16

func TestC10IntegerTypes(t *testing.T) {
	c := coll("C10")
	c.rule(ruleC10)
	check := func(name string, native, got []string) {
		c.eval("inttype"+name, len(native) >= 2, "integer-types")
		if !reflect.DeepEqual(native, got) {
			violation(t, &Replay{Property: "C10", Kind: "integer-types", Input: name,
				What: fmt.Sprintf("NewIntegerIter(%s): first keys %v, native range %v", name, got, native), Got: got, Want: native})
		}
	}
	{
		n, g := firstKeys(int8(127), 200)
		check("int8(127)", n, g)
	}
	{
		n, g := firstKeys(int8(-5), 5)
		check("int8(-5)", n, g)
	}
	{
		n, g := firstKeys(uint8(255), 300)
		check("uint8(255)", n, g)
	}
	{
		n, g := firstKeys(uint16(3), 10)
		check("uint16(3)", n, g)
	}
	{
		n, g := firstKeys(int64(1)<<40, 4)
		check("int64(1<<40)", n, g)
	}
	{
		n, g := firstKeys(uint64(1)<<63, 4)
		check("uint64(1<<63)", n, g)
	}
	{
		n, g := firstKeys(^uint64(0), 4)
		check("uint64(max)", n, g)
	}
	{
		n, g := firstKeys(^uint(0), 3)
		check("uint(max)", n, g)
	}
	{
		n, g := firstKeys(^uintptr(0), 3)
		check("uintptr(max)", n, g)
	}
	{
		n, g := firstKeys(uint32(0), 3)
		check("uint32(0)", n, g)
	}
	{
		n, g := firstKeys(myInt(4), 10)
		check("myInt(4)", n, g)
	}
	{
		n, g := firstKeys(int64(-1)<<62, 3)
		check("int64(min/2)", n, g)
	}
	c.sample(map[string]any{"kind": "integer-types", "input": "uint64(1<<63), first 4 keys"})
}
