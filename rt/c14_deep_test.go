package rt

import (
	"fmt"
	"os"
	"sync"
	"testing"

	"github.com/goghcrow/go-co/seq"
)

// deepChain builds what the compiler generates for
//
//	func nest(k int) Iter[int] { if k == 0 { <leaf>; Yield(1); Yield(2); return }; YieldFrom(nest(k - 1)) }
//
// i.e. a delegation chain of depth k (YieldFrom(x) = for it := x; it.MoveNext(); { Yield(it.Current()) }).
// leaf runs when the innermost generator is entered for the first time, with all k outer advances on the stack.
func deepChain(k int, leaf func()) seq.Iterator[int] {
	if k == 0 {
		return seq.Start(seq.Delay(func() seq.Seq[int] {
			leaf()
			return seq.Bind(1, func() seq.Seq[int] { return seq.Bind(2, seq.Normal[int]) })
		}))
	}
	return seq.Start(seq.Delay(func() seq.Seq[int] {
		it := deepChain(k-1, leaf)
		return seq.While(it.MoveNext, seq.Delay(func() seq.Seq[int] {
			return seq.Bind(it.Current(), seq.Normal[int])
		}))
	}))
}

// TestC14ParallelDeepDelegation: "iterators consumed on different goroutines share no runtime state" also when each of
// them is deep inside a recursive delegation at the same moment. G goroutines each own one chain of depth D; a barrier in
// the leaf holds every goroutine at its deepest point until all have arrived (so whatever the runtime counts or caches per
// process instead of per iterator sees the SUM of the depths), then each drains its chain. Every transcript must equal
// the solo transcript [1 2]; a panic in any advance is a violation.
func TestC14ParallelDeepDelegation(t *testing.T) {
	c := coll("C14")
	c.rule("parallel deep delegation: G goroutines, each advancing its own delegation chain of depth D (compiled shape of a recursive YieldFrom); a barrier holds all of them at the innermost generator at the same time; every goroutine must see exactly the solo sequence, no panic, race detector silent")
	type cfg struct{ g, d int }
	cfgs := []cfg{{4, 2000}, {8, 20000}}
	if os.Getenv("VERIF_TIER") == "thorough" {
		cfgs = append(cfgs, cfg{16, 20000}, cfg{8, 60000})
	}
	for _, cf := range cfgs {
		// solo reference for this depth
		var want []string
		for it := deepChain(cf.d, func() {}); it.MoveNext(); {
			want = append(want, fmt.Sprint(it.Current()))
		}
		var barrier sync.WaitGroup
		barrier.Add(cf.g)
		outs := make([][]string, cf.g)
		var wg sync.WaitGroup
		for gi := 0; gi < cf.g; gi++ {
			wg.Add(1)
			go func(gi int) {
				defer wg.Done()
				arrived := false
				defer func() {
					if r := recover(); r != nil {
						outs[gi] = append(outs[gi], fmt.Sprintf("PANIC %v", r))
						if !arrived {
							barrier.Done() // never strand the others
						}
					}
				}()
				it := deepChain(cf.d, func() {
					arrived = true
					barrier.Done()
					barrier.Wait()
				})
				for it.MoveNext() {
					outs[gi] = append(outs[gi], fmt.Sprint(it.Current()))
				}
			}(gi)
		}
		wg.Wait()
		c.eval(fmt.Sprint("deep", cf), true, "parallel-deep-delegation")
		for gi := range outs {
			if fmt.Sprint(outs[gi]) != fmt.Sprint(want) {
				violation(t, &Replay{Property: "C14", Kind: "parallel-deep-delegation", Input: map[string]any{"goroutines": cf.g, "depth": cf.d},
					What: fmt.Sprintf("goroutine %d of %d, each inside a delegation chain of depth %d at the same time, saw %v; alone the chain yields %v", gi, cf.g, cf.d, outs[gi], want), Got: outs[gi], Want: want})
				return
			}
		}
	}
}
