package rt

import (
	"fmt"
	"testing"

	"pgregory.net/rapid"
)

// C08 — runtime combinators implement the documented resumption-monad semantics.
// Oracle: transcript (return values of every consumer call + events of thunks/conds/posts that ran
// inside that call + final result) of the real runtime == transcript of the reference interpreter.

const ruleC08 = "terms over {Start,Bind,BindRecv,Delay,Combine,For,While,Loop,Normal,Break,Continue,Return,ReturnValue} " +
	"with stateful scripts; case = (term, consumer history); non-trivial = in the reference run some loop " +
	"body executed >= 2 times or a non-normal signal crossed a Combine; distinct by hash of term JSON + history"

// standard histories for the exhaustive part: a drain with Current calls and two advances after
// exhaustion (every truncation is a prefix), and a Send-driven history.
func stdHistories() [][]Op {
	var drain []Op
	for i := 0; i < 7; i++ {
		drain = append(drain, Op{K: "mn"}, Op{K: "cur"})
	}
	drain = append(drain, Op{K: "res"}, Op{K: "mn"}, Op{K: "cur"}, Op{K: "res"})
	send := mkOps(3, "cur", 4, "mn", "cur", 5, "res", 6, "mn", "res", 7, "cur", "res")
	return [][]Op{drain, send}
}

// compareTerm runs one case on both sides; returns nil if they agree.
func compareTerm(id, kind string, tm *Term, ops []Op, fuel int) (*Replay, *env) {
	got, _, _ := runImpl(tm, ops, fuel)
	want, re, _ := runRef(tm, ops, fuel)
	if i, g, w := diff(got, want); i >= 0 {
		return &Replay{
			Property: id, Kind: kind, Term: tm, Ops: ops, Fuel: fuel,
			What: fmt.Sprintf("transcript differs at step %d for %s under [%s]: impl %q, reference %q",
				i, tm, opsString(ops), g, w),
			Got: got, Want: want,
		}, re
	}
	return nil, re
}

func TestC08Exhaustive(t *testing.T) {
	c := coll("C08")
	c.rule(ruleC08)
	maxFull, maxSmall := 4, 5
	if thorough() {
		maxFull, maxSmall = 5, 6
	}
	hs := stdHistories()
	reported := 0
	check := func(tm *Term) {
		for _, ops := range hs {
			rep, re := compareTerm("C08", "term", tm, ops, defaultFuel)
			nt := re.maxIters >= 2 || re.sigCross
			c.eval(tm.JSON()+opsString(ops), nt)
			if rep != nil && reported < 5 {
				reported++
				violation(t, shrinkTermReplay(rep))
			}
		}
	}
	n := 0
	for k := 1; k <= maxFull; k++ {
		fullAlphabet.enumTerms(k, func(tm *Term) { n++; check(tm) })
	}
	c.markExhaustive(fmt.Sprintf("all %d terms with <= %d nodes over the full script alphabet x 2 standard histories", n, maxFull))
	n2 := 0
	for k := maxFull + 1; k <= maxSmall; k++ {
		smallAlphabet.enumTerms(k, func(tm *Term) {
			n2++
			check(tm)
			if n2%4001 == 0 {
				c.sample(map[string]any{"term": tm.String(), "history": opsString(hs[0])})
			}
		})
	}
	c.markExhaustive(fmt.Sprintf("all %d terms with %d..%d nodes over the reduced script alphabet x 2 standard histories", n2, maxFull+1, maxSmall))
	c.set("exhaustive_terms", n+n2)
}

// shrinkTermReplay greedily replaces sub-terms by their children / leaves while the two sides
// still disagree (used for failures found by enumeration; rapid shrinks its own).
func shrinkTermReplay(r *Replay) *Replay {
	cur := r
	improved := true
	for improved {
		improved = false
		for _, cand := range termReductions(cur.Term) {
			if !wellFormed(cand) {
				continue
			}
			if rep, _ := compareTerm(r.Property, r.Kind, cand, cur.Ops, cur.Fuel); rep != nil {
				cur = rep
				improved = true
				break
			}
		}
		for len(cur.Ops) > 1 {
			if rep, _ := compareTerm(r.Property, r.Kind, cur.Term, cur.Ops[:len(cur.Ops)-1], cur.Fuel); rep != nil {
				cur = rep
				improved = true
			} else {
				break
			}
		}
	}
	return cur
}

// wellFormed: no genuine `for {}` (see guarded).
func wellFormed(t *Term) bool {
	if t == nil {
		return true
	}
	if (t.K == "loop" || (t.K == "for" && t.Cond == nil && t.Post == nil)) && !guarded(t.A) {
		return false
	}
	return wellFormed(t.A) && wellFormed(t.B)
}

// termReductions: every term obtained by replacing one node by one of its children or by "normal".
func termReductions(t *Term) []*Term {
	var out []*Term
	var walk func(path []int)
	get := func(root *Term, path []int) **Term {
		p := &root
		for _, i := range path {
			if i == 0 {
				p = &(*p).A
			} else {
				p = &(*p).B
			}
		}
		return p
	}
	walk = func(path []int) {
		node := *get(t, path)
		if node == nil {
			return
		}
		for _, repl := range []*Term{node.A, node.B, {K: "normal"}} {
			if repl == nil || (repl.K == "normal" && node.K == "normal") {
				continue
			}
			if len(path) == 0 {
				out = append(out, clone(repl))
				continue
			}
			c := clone(t)
			*get(c, path) = clone(repl)
			out = append(out, c)
		}
		walk(append(append([]int{}, path...), 0))
		walk(append(append([]int{}, path...), 1))
	}
	walk(nil)
	return out
}

func TestC08Rapid(t *testing.T) {
	c := coll("C08")
	c.rule(ruleC08)
	depth := 5
	if thorough() {
		depth = 7
	}
	var last *Replay
	// rapid.Check ends the test goroutine on failure (FailNow): report from a deferred call
	defer func() {
		if last != nil {
			violation(t, last)
		}
	}()
	k := 0
	rapid.Check(t, func(rt *rapid.T) {
		tm := genTerm(termOpts{maxDepth: depth}).Draw(rt, "term")
		ops := genOps(16).Draw(rt, "ops")
		rep, re := compareTerm("C08", "term", tm, ops, defaultFuel)
		nt := re.maxIters >= 2 || re.sigCross
		c.eval(tm.JSON()+opsString(ops), nt, fmt.Sprintf("size<=%d", (tm.Size()/8+1)*8))
		k++
		if k%500 == 1 {
			c.sample(map[string]any{"term": tm.String(), "history": opsString(ops), "reference_trace": re.trace})
		}
		if rep != nil {
			last = rep
			rt.Fatalf("%s", rep.What)
		}
	})
}

// ---- algebraic laws, checked on the implementation alone (metamorphic) ------------------------

type ctx struct {
	name string
	wrap func(hole *Term) *Term
}

func contexts() []ctx {
	return []ctx{
		{"[]", func(h *Term) *Term { return h }},
		{"for[x2<2;++]([])", func(h *Term) *Term {
			return &Term{K: "for", Cond: &Cond{Ev: 900, Var: 2, Lt: 2}, Post: &Script{Ev: 901, Op: "inc", Var: 2}, A: h}
		}},
		{"combine([], bind 99)", func(h *Term) *Term {
			return &Term{K: "combine", A: h, B: &Term{K: "bind", Val: &Val{Const: 99}, S: &Script{Ev: 902}, A: &Term{K: "normal"}}}
		}},
		{"bind 98 {[]}", func(h *Term) *Term {
			return &Term{K: "bind", Val: &Val{Const: 98}, S: &Script{Ev: 903}, A: h}
		}},
		{"while[x2<3;++](combine([], break))", func(h *Term) *Term {
			return &Term{K: "while", Cond: &Cond{Ev: 904, Var: 2, Lt: 3, Inc: true}, A: &Term{K: "combine", A: h, B: &Term{K: "break"}}}
		}},
	}
}

func TestC08Laws(t *testing.T) {
	c := coll("C08")
	c.rule("algebraic laws on the implementation alone: Combine associativity, Normal unit, Break/Continue/Return " +
		"left zero, While=For(c,nil), Loop=For(nil,nil), Delay of an effect-free thunk is the identity; each inside 5 contexts")
	var last *Replay
	// rapid.Check ends the test goroutine on failure (FailNow): report from a deferred call
	defer func() {
		if last != nil {
			violation(t, last)
		}
	}()
	ctxs := contexts()
	rapid.Check(t, func(rt *rapid.T) {
		o := termOpts{maxDepth: 3}
		a := drawTerm(rt, o, 0, "a")
		b := drawTerm(rt, o, 0, "b")
		cc := drawTerm(rt, o, 0, "c")
		nd := drawTerm(rt, termOpts{maxDepth: 3, noDyn: true}, 0, "nd")
		number(a, b, cc, nd)
		ga := a // loop body that is guaranteed to burn fuel
		if !guarded(ga) {
			ga = &Term{K: "delay", S: &Script{Ev: 801}, A: a}
		}
		loopCond := drawCond(rt, o, "lc")
		loopCond.Ev = 800
		ops := genOps(12).Draw(rt, "ops")
		x := rapid.SampledFrom([]string{"break", "continue", "return", "retval"}).Draw(rt, "x")
		xt := &Term{K: x}
		if x == "retval" {
			xt.Val = &Val{Const: 55}
		}
		type law struct {
			name string
			l, r *Term
		}
		laws := []law{
			{"assoc", &Term{K: "combine", A: &Term{K: "combine", A: a, B: b}, B: cc}, &Term{K: "combine", A: a, B: &Term{K: "combine", A: b, B: cc}}},
			{"left-unit", &Term{K: "combine", A: &Term{K: "normal"}, B: a}, a},
			{"right-unit", &Term{K: "combine", A: a, B: &Term{K: "normal"}}, a},
			{"left-zero-" + x, &Term{K: "combine", A: xt, B: a}, xt},
			{"while=for", &Term{K: "while", Cond: loopCond, A: a}, &Term{K: "for", Cond: loopCond, A: a}},
			{"loop=for", &Term{K: "loop", A: ga}, &Term{K: "for", A: ga}},
			{"delay-id", &Term{K: "delay", A: nd}, nd},
		}
		for _, l := range laws {
			for _, cx := range ctxs {
				lt, rt2 := cx.wrap(clone(l.l)), cx.wrap(clone(l.r))
				got, _, _ := runImpl(lt, ops, defaultFuel)
				want, _, _ := runImpl(rt2, ops, defaultFuel)
				c.eval(l.name+cx.name+lt.JSON()+opsString(ops), len(got) > 3, "law:"+l.name)
				if i, g, w := diff(got, want); i >= 0 {
					last = &Replay{Property: "C08", Kind: "law", Terms: []*Term{lt, rt2}, Ops: ops, Fuel: defaultFuel,
						What: fmt.Sprintf("law %s in context %s: step %d: lhs %q rhs %q (lhs=%s rhs=%s)", l.name, cx.name, i, g, w, lt, rt2),
						Got:  got, Want: want}
					rt.Fatalf("%s", last.What)
				}
			}
		}
	})
}

// ---- directed terms: structured programs with conditional exits over re-run loop values --------------------
//
// `seq.For(c, p, body)` takes its body as a VALUE: a loop nested directly in another loop's body is built once and
// run once per outer iteration. The family below spells out the programs
//
//	for <outer> { for <inner> { [if stop {break}] [if first-round {yield; stop=true}] i++ } ; stop=false ; [yield] }
//
// with every combination of: which round yields, where the conditional break/continue/return sits relative to the
// yield, and whether something yields after the inner loop, so that the interplay "suspended inside run k of a loop
// value / resumed / left by break / run k+1 of the same value completes without yielding" is enumerated.
func directedTerms() []*Term {
	nrm := func() *Term { return &Term{K: "normal"} }
	inc := func(v int) *Script { return &Script{Op: "inc", Var: v} }
	iff := func(v, lt int, a, b *Term) *Term { return &Term{K: "if", Cond: &Cond{Var: v, Lt: lt}, A: a, B: b} }
	var out []*Term
	for _, exit := range []string{"break", "continue", "return", "retval"} {
		for _, exitFirst := range []bool{true, false} {
			for yieldRound := 0; yieldRound <= 1; yieldRound++ {
				for _, after := range []string{"none", "yield-last-round", "yield-every-round"} {
					for _, outerPost := range []bool{true, false} {
						ex := &Term{K: exit}
						if exit == "retval" {
							ex.Val = &Val{Const: 50}
						}
						if exit == "continue" {
							// a continue that does not advance the counter would spin: advance first
							ex = &Term{K: "delay", S: inc(1), A: ex}
						}
						// x0 = round, x1 = i, x2 = stop
						step := &Term{K: "delay", S: inc(1), A: nrm()}
						yieldStep := &Term{K: "bind", Val: &Val{Dyn: true, Var: 1}, S: inc(2), A: step}
						var work *Term
						if yieldRound == 0 {
							work = iff(0, 1, yieldStep, clone(step)) // round == 0 yields
						} else {
							work = iff(0, 1, clone(step), yieldStep) // round >= 1 yields
						}
						var body *Term
						if exitFirst {
							body = iff(2, 1, work, ex) // if !stop { work } else { exit }
						} else {
							body = &Term{K: "combine", A: work, B: iff(2, 1, nrm(), ex)}
						}
						inner := &Term{K: "while", Cond: &Cond{Var: 1, Lt: 4}, A: body}
						var tail *Term
						switch after {
						case "none":
							tail = &Term{K: "delay", S: &Script{Op: "reset", Var: 2}, A: nrm()}
						case "yield-last-round":
							tail = &Term{K: "delay", S: &Script{Op: "reset", Var: 2}, A: iff(0, 1, nrm(), &Term{K: "bind", Val: &Val{Const: 100, Dyn: true, Var: 1}, S: &Script{}, A: nrm()})}
						default:
							tail = &Term{K: "delay", S: &Script{Op: "reset", Var: 2}, A: &Term{K: "bind", Val: &Val{Const: 100, Dyn: true, Var: 1}, S: &Script{}, A: nrm()}}
						}
						var outer *Term
						if outerPost {
							outer = &Term{K: "for", Cond: &Cond{Var: 0, Lt: 3}, Post: inc(0), A: &Term{K: "combine", A: inner, B: tail}}
						} else {
							outer = &Term{K: "while", Cond: &Cond{Var: 0, Lt: 3, Inc: true}, A: &Term{K: "combine", A: inner, B: tail}}
						}
						tm := &Term{K: "combine", A: outer, B: &Term{K: "bind", Val: &Val{Const: 900}, S: &Script{}, A: &Term{K: "retval", Val: &Val{Const: 7, Dyn: true, Var: 1}}}}
						number(tm)
						out = append(out, tm)
					}
				}
			}
		}
	}
	return out
}

func TestC08Directed(t *testing.T) {
	c := coll("C08")
	c.rule("directed family: outer loop x ONE inner loop value re-run per outer iteration x conditional break/continue/return placed before or after the yield x which round yields x what follows the inner loop, under the two standard histories and a Send-only history")
	hs := append(stdHistories(), mkOps(1, 2, 3, 4, 5, 6, 7, 8, "res", "cur"))
	reported := 0
	fam := directedTerms()
	for _, tm := range fam {
		for _, ops := range hs {
			rep, re := compareTerm("C08", "term", tm, ops, 400)
			c.eval(tm.JSON()+opsString(ops), re.maxIters >= 2 || re.sigCross, "directed")
			if rep != nil && reported < 3 {
				reported++
				violation(t, rep)
			}
		}
	}
	c.sample(map[string]any{"directed_term": fam[0].String()})
	c.markExhaustive(fmt.Sprintf("directed family of %d terms x %d histories", len(fam), len(hs)))
}
