package rt

import (
	"fmt"
	"sort"
	"strings"
	"sync"
	"testing"

	"github.com/goghcrow/go-co/seq"
	"pgregory.net/rapid"
)

// ---- C18 (runtime half): panics surface from the advance that ran the panicking script ----------

const ruleC18 = "terms with panicking thunks/conds/posts (explicit panic values and runtime errors) under MoveNext/Send histories; " +
	"oracle = reference coroutine (iter.Pull propagates the panic out of the resume that ran it): same call, same value, " +
	"identical transcript before it; non-trivial = the panic surfaced at the 2nd or later advance or inside a loop; distinct by term+history"

func TestC18Rapid(t *testing.T) {
	c := coll("C18")
	c.rule(ruleC18)
	var last *Replay
	// rapid.Check ends the test goroutine on failure (FailNow): report from a deferred call
	defer func() {
		if last != nil {
			violation(t, last)
		}
	}()
	k := 0
	rapid.Check(t, func(rt *rapid.T) {
		tm := genTerm(termOpts{maxDepth: 5, panics: true}).Draw(rt, "term")
		ops := genOps(14).Draw(rt, "ops")
		rep, re := compareTerm("C18", "term", tm, ops, defaultFuel)
		want, _, panicked := runRef(tm, ops, defaultFuel)
		adv := 0
		for _, l := range want {
			if strings.HasPrefix(l, "mn") || strings.HasPrefix(l, "send") {
				adv++
			}
		}
		nt := panicked && (adv >= 2 || re.maxIters >= 1)
		cls := "no-panic"
		if panicked {
			cls = "panic"
		}
		c.eval(tm.JSON()+opsString(ops), nt, cls)
		k++
		if nt && k%50 == 0 {
			c.sample(map[string]any{"term": tm.String(), "history": opsString(ops), "reference_transcript": want})
		}
		if rep != nil {
			last = rep
			rt.Fatalf("%s", rep.What)
		}
	})
}

// exhaustive: every script position of every small term replaced by a panic, one at a time
func TestC18Exhaustive(t *testing.T) {
	c := coll("C18")
	c.rule(ruleC18)
	hs := stdHistories()
	reported := 0
	n := 0
	maxN := 3
	if thorough() {
		maxN = 4
	}
	for k := 1; k <= maxN; k++ {
		fullAlphabet.enumTerms(k, func(tm *Term) {
			// all positions
			var scripts []*Script
			var conds []*Cond
			var walk func(x *Term)
			walk = func(x *Term) {
				if x == nil {
					return
				}
				if x.S != nil {
					scripts = append(scripts, x.S)
				}
				if x.Post != nil {
					scripts = append(scripts, x.Post)
				}
				if x.Cond != nil {
					conds = append(conds, x.Cond)
				}
				walk(x.A)
				walk(x.B)
			}
			walk(tm)
			try := func() {
				for _, ops := range hs {
					n++
					rep, re := compareTerm("C18", "term", tm, ops, defaultFuel)
					c.eval(tm.JSON()+opsString(ops), re.yields >= 1 || re.maxIters >= 1)
					if rep != nil && reported < 5 {
						reported++
						violation(t, shrinkTermReplay(rep))
					}
				}
			}
			for _, s := range scripts {
				old := s.Op
				s.Op = "panic"
				try()
				s.Op = old
			}
			for _, cd := range conds {
				cd.Panic = true
				try()
				cd.Panic = false
			}
		})
	}
	c.markExhaustive(fmt.Sprintf("every script/cond position of every term with <= %d nodes turned into a panic, x 2 standard histories (%d cases)", maxN, n))
}

// ---- C14 (runtime half): iterators are independent under any interleaving -----------------------

const ruleC14 = "k <= 3 live iterators built from random terms (each with its own script state), all interleavings of their " +
	"consumer histories (m <= 4 calls each, exhaustive) and parallel consumption on goroutines under the race detector; " +
	"oracle = each iterator's transcript equals its solo transcript; non-trivial = >= 2 iterators are suspended inside a " +
	"loop at the same time; distinct by terms + histories + schedule"

type stepper struct {
	e    *env
	g    gen4
	ops  []Op
	pos  int
	out  []string
	dead bool
	done bool
}

func newStepper(tm *Term, ops []Op) *stepper {
	e := newEnv(defaultFuel)
	s := &stepper{e: e, ops: ops}
	s.g = seq.Start(e.build(tm)).(seq.Generator[int])
	return s
}

func (s *stepper) step() {
	if s.pos >= len(s.ops) {
		return
	}
	op := s.ops[s.pos]
	s.pos++
	if s.dead {
		return
	}
	mark := len(s.e.trace)
	var res string
	func() {
		defer func() {
			if r := recover(); r != nil {
				s.dead = true
				res = fmt.Sprintf("PANIC %v", r)
			}
		}()
		switch op.K {
		case "mn":
			ok := s.g.MoveNext()
			s.done = s.done || !ok
			res = fmt.Sprint(ok)
		case "cur":
			res = fmt.Sprint(s.g.Current())
		case "send":
			v, ok := s.g.Send(op.V)
			s.done = s.done || !ok
			res = fmt.Sprint(v, ok)
		case "res":
			v := s.g.Result()
			if s.done {
				res = fmt.Sprint(v)
			} else {
				res = "-"
			}
		}
	}()
	s.out = append(s.out, fmt.Sprintf("%s -> %s | %v", op, res, s.e.trace[mark:]))
}

func solo(tm *Term, ops []Op) []string {
	s := newStepper(tm, ops)
	for range ops {
		s.step()
	}
	return s.out
}

// schedules enumerates all interleavings of counts[i] steps of iterator i.
func schedules(counts []int, f func(order []int)) {
	total := 0
	for _, c := range counts {
		total += c
	}
	left := append([]int{}, counts...)
	order := make([]int, 0, total)
	var rec func()
	rec = func() {
		if len(order) == total {
			f(order)
			return
		}
		for i := range left {
			if left[i] > 0 {
				left[i]--
				order = append(order, i)
				rec()
				order = order[:len(order)-1]
				left[i]++
			}
		}
	}
	rec()
}

func TestC14Interleavings(t *testing.T) {
	c := coll("C14")
	c.rule(ruleC14)
	var last *Replay
	// rapid.Check ends the test goroutine on failure (FailNow): report from a deferred call
	defer func() {
		if last != nil {
			violation(t, last)
		}
	}()
	n := 0
	rapid.Check(t, func(rt *rapid.T) {
		k := rapid.IntRange(2, 3).Draw(rt, "k")
		m := 4
		if k == 3 && !thorough() {
			m = 3
		}
		// same term for all iterators half of the time (state shared between instances of one
		// generator is the failure mode this is after)
		same := rapid.Bool().Draw(rt, "same")
		var terms []*Term
		var hist [][]Op
		base := genTerm(termOpts{maxDepth: 4}).Draw(rt, "t0")
		for i := 0; i < k; i++ {
			tm := base
			if !same && i > 0 {
				tm = genTerm(termOpts{maxDepth: 4}).Draw(rt, fmt.Sprint("t", i))
			}
			terms = append(terms, tm)
			hist = append(hist, rapid.SliceOfN(rapid.SampledFrom([]Op{{K: "mn"}, {K: "mn"}, {K: "cur"}, {K: "send", V: 2}, {K: "res"}}), m, m).Draw(rt, fmt.Sprint("h", i)))
		}
		var want [][]string
		for i := range terms {
			want = append(want, solo(terms[i], hist[i]))
		}
		counts := make([]int, k)
		for i := range counts {
			counts[i] = m
		}
		// non-trivial: at least two iterators yield twice or more from a loop
		inLoop := 0
		for i := range terms {
			_, re, _ := runRef(terms[i], hist[i], defaultFuel)
			if re.maxIters >= 1 && re.yields >= 1 {
				inLoop++
			}
		}
		schedules(counts, func(order []int) {
			n++
			st := make([]*stepper, k)
			for i := range st {
				st[i] = newStepper(terms[i], hist[i])
			}
			for _, i := range order {
				st[i].step()
			}
			c.eval(fmt.Sprint(terms[0].JSON(), same, k, hist, order), inLoop >= 2)
			for i := range st {
				if j, g, w := diff(st[i].out, want[i]); j >= 0 {
					last = &Replay{Property: "C14", Kind: "interleave", Terms: terms, Input: map[string]any{"histories": hist, "schedule": append([]int{}, order...)},
						What: fmt.Sprintf("iterator %d of %d under schedule %v: step %d is %q, consumed alone it is %q (term %s)", i, k, order, j, g, w, terms[i]),
						Got:  st[i].out, Want: want[i]}
					rt.Fatalf("%s", last.What)
				}
			}
		})
		if n%997 == 0 {
			c.sample(map[string]any{"terms": []string{terms[0].String(), terms[1].String()}, "histories": []string{opsString(hist[0]), opsString(hist[1])}, "k": k})
		}
	})
	c.markExhaustive("per drawn tuple: all interleavings of k iterators x m calls each (k=2,m=4: 70; k=3,m=3: 1680; thorough k=3,m=4: 34650)")
	c.sample(map[string]any{"note": "schedules enumerated exhaustively per tuple", "total_schedules": n})
}

// parallel consumption on goroutines; run with -race by ./check
func TestC14Parallel(t *testing.T) {
	c := coll("C14")
	c.rule("parallel: 4..8 goroutines each consuming its own iterator (same generator term) concurrently; every transcript must equal the solo transcript and the race detector must stay silent")
	var last *Replay
	// rapid.Check ends the test goroutine on failure (FailNow): report from a deferred call
	defer func() {
		if last != nil {
			violation(t, last)
		}
	}()
	rapid.Check(t, func(rt *rapid.T) {
		tm := genTerm(termOpts{maxDepth: 5}).Draw(rt, "term")
		ops := genOps(10).Draw(rt, "ops")
		g := rapid.IntRange(4, 8).Draw(rt, "goroutines")
		want := solo(tm, ops)
		outs := make([][]string, g)
		var wg sync.WaitGroup
		start := make(chan struct{})
		for i := 0; i < g; i++ {
			wg.Add(1)
			go func(i int) {
				defer wg.Done()
				<-start
				outs[i] = solo(tm, ops)
			}(i)
		}
		close(start)
		wg.Wait()
		_, re, _ := runRef(tm, ops, defaultFuel)
		c.eval(tm.JSON()+opsString(ops)+fmt.Sprint(g), re.yields >= 2, "parallel")
		for i := range outs {
			if j, gg, w := diff(outs[i], want); j >= 0 {
				last = &Replay{Property: "C14", Kind: "parallel", Term: tm, Ops: ops,
					What: fmt.Sprintf("goroutine %d: step %d is %q, alone it is %q (term %s)", i, j, gg, w, tm), Got: outs[i], Want: want}
				rt.Fatalf("%s", last.What)
			}
		}
	})
}

// ---- C14: one Seq value started by several iterators ------------------------------------------------
// The public API allows `var cycle = seq.Loop(..); func Cycle() Iterator { return seq.Start(cycle) }`:
// every Start of the same Seq value must give an independent iterator (For allocates its loop state
// per run of the Seq). The terms are stateless (no counters, no scripts), so each iterator's results
// depend only on its own position.

func drawStateless(t *rapid.T, depth int, label string) *Term {
	kinds := []string{"normal", "break", "continue", "return", "retval"}
	if depth < 4 {
		kinds = append(kinds, "bind", "bind", "bind", "delay", "combine", "combine", "loop", "loop", "forpost") // no bindrecv: its thunk writes the (shared) environment
	}
	k := rapid.SampledFrom(kinds).Draw(t, label+".k")
	switch k {
	case "retval":
		return &Term{K: k, Val: &Val{Const: 7}}
	case "bind":
		return &Term{K: k, Val: &Val{}, A: drawStateless(t, depth+1, label+"a")}
	case "bindrecv":
		return &Term{K: k, Val: &Val{}, A: drawStateless(t, depth+1, label+"a")}
	case "delay":
		return &Term{K: k, A: drawStateless(t, depth+1, label+"a")}
	case "combine":
		return &Term{K: k, A: drawStateless(t, depth+1, label+"a"), B: drawStateless(t, depth+1, label+"b")}
	case "loop", "forpost":
		// the body must suspend (a bind) before it can complete, otherwise `for {}`
		body := &Term{K: "bind", Val: &Val{}, A: drawStateless(t, depth+1, label+"a")}
		if k == "loop" {
			return &Term{K: "loop", A: body}
		}
		return &Term{K: "for", A: body} // For(nil, nil, body)
	}
	return &Term{K: k}
}

func sharedResults(its []seq.Generator[int], hist [][]Op, order []int) [][]string {
	out := make([][]string, len(its))
	pos := make([]int, len(its))
	for _, i := range order {
		op := hist[i][pos[i]]
		pos[i]++
		var res string
		func() {
			defer func() {
				if r := recover(); r != nil {
					res = fmt.Sprintf("PANIC %v", r)
				}
			}()
			switch op.K {
			case "mn":
				res = fmt.Sprint(its[i].MoveNext())
			case "cur":
				res = fmt.Sprint(its[i].Current())
			case "send":
				v, ok := its[i].Send(op.V)
				res = fmt.Sprint(v, ok)
			default:
				res = "-"
			}
		}()
		out[i] = append(out[i], op.String()+" -> "+res)
	}
	return out
}

func TestC14SharedSeq(t *testing.T) {
	c := coll("C14")
	c.rule("one Seq value (stateless term) started by k<=3 iterators: all interleavings of their histories; each iterator's results must equal those of a lone iterator over a freshly built Seq; also 4 goroutines sharing one Seq under -race")
	var last *Replay
	// rapid.Check ends the test goroutine on failure (FailNow): report from a deferred call
	defer func() {
		if last != nil {
			violation(t, last)
		}
	}()
	rapid.Check(t, func(rt *rapid.T) {
		tm := drawStateless(rt, 0, "t")
		number(tm)
		k := rapid.IntRange(2, 3).Draw(rt, "k")
		m := 4
		if k == 3 {
			m = 3
		}
		var hist [][]Op
		for i := 0; i < k; i++ {
			hist = append(hist, rapid.SliceOfN(rapid.SampledFrom([]Op{{K: "mn"}, {K: "mn"}, {K: "mn"}, {K: "cur"}, {K: "send", V: 2}}), m, m).Draw(rt, fmt.Sprint("h", i)))
		}
		// solo: fresh Seq per iterator
		var want [][]string
		for i := 0; i < k; i++ {
			e := newEnv(1 << 30)
			g := seq.Start(e.build(tm)).(seq.Generator[int])
			order := make([]int, m)
			w := sharedResults([]seq.Generator[int]{g}, [][]Op{hist[i]}, order)
			want = append(want, w[0])
		}
		counts := make([]int, k)
		for i := range counts {
			counts[i] = m
		}
		yields := 0
		for _, w := range want {
			for _, l := range w {
				if strings.HasSuffix(l, "true") {
					yields++
				}
			}
		}
		schedules(counts, func(order []int) {
			e := newEnv(1 << 30)
			shared := e.build(tm) // ONE Seq value
			its := make([]seq.Generator[int], k)
			for i := range its {
				its[i] = seq.Start(shared).(seq.Generator[int])
			}
			got := sharedResults(its, hist, order)
			c.eval(fmt.Sprint("shared", tm.JSON(), hist, order), yields >= 3, "shared-seq")
			for i := range got {
				if j, g, w := diff(got[i], want[i]); j >= 0 {
					last = &Replay{Property: "C14", Kind: "shared-seq", Term: tm, Input: map[string]any{"histories": hist, "schedule": append([]int{}, order...)},
						What: fmt.Sprintf("one Seq started %d times, schedule %v: iterator %d step %d is %q, alone it is %q (term %s)", k, order, i, j, g, w, tm), Got: got[i], Want: want[i]}
					rt.Fatalf("%s", last.What)
				}
			}
		})
	})
}

func TestC14ParallelSharedSeq(t *testing.T) {
	c := coll("C14")
	var last *Replay
	// rapid.Check ends the test goroutine on failure (FailNow): report from a deferred call
	defer func() {
		if last != nil {
			violation(t, last)
		}
	}()
	rapid.Check(t, func(rt *rapid.T) {
		tm := drawStateless(rt, 0, "t")
		number(tm)
		ops := rapid.SliceOfN(rapid.SampledFrom([]Op{{K: "mn"}, {K: "mn"}, {K: "cur"}}), 4, 12).Draw(rt, "ops")
		e0 := newEnv(1 << 30)
		want := sharedResults([]seq.Generator[int]{seq.Start(e0.build(tm)).(seq.Generator[int])}, [][]Op{ops}, make([]int, len(ops)))[0]
		e := newEnv(1 << 30)
		shared := e.build(tm)
		const g = 4
		outs := make([][]string, g)
		var wg sync.WaitGroup
		start := make(chan struct{})
		for i := 0; i < g; i++ {
			wg.Add(1)
			go func(i int) {
				defer wg.Done()
				it := seq.Start(shared).(seq.Generator[int])
				<-start
				outs[i] = sharedResults([]seq.Generator[int]{it}, [][]Op{ops}, make([]int, len(ops)))[0]
			}(i)
		}
		close(start)
		wg.Wait()
		c.eval(fmt.Sprint("parshared", tm.JSON(), ops), true, "parallel-shared-seq")
		for i := range outs {
			if j, gg, w := diff(outs[i], want); j >= 0 {
				last = &Replay{Property: "C14", Kind: "parallel-shared-seq", Term: tm, Ops: ops,
					What: fmt.Sprintf("goroutine %d sharing one Seq: step %d is %q, alone it is %q (term %s)", i, j, gg, w, tm), Got: outs[i], Want: want}
				rt.Fatalf("%s", last.What)
			}
		}
	})
}

// ---- C14: the built-in range iterators are independent objects -----------------------------------------

type anyIter interface {
	MoveNext() bool
	cur() string
}

type strIt struct {
	it interface {
		MoveNext() bool
	}
	get func() string
}

func (s strIt) MoveNext() bool { return s.it.MoveNext() }
func (s strIt) cur() string    { return s.get() }

func mkBuiltin(kind string, n int) anyIter {
	switch kind {
	case "string":
		it := seq.NewStringIter(strings.Repeat("aé", n)[:n])
		return strIt{it, func() string { return fmt.Sprint(it.Current().Key, it.Current().Val) }}
	case "slice":
		xs := make([]int, n)
		for i := range xs {
			xs[i] = i * 3
		}
		it := seq.NewSliceIter(xs)
		return strIt{it, func() string { return fmt.Sprint(it.Current().Key, it.Current().Val) }}
	case "int":
		it := seq.NewIntegerIter(n)
		return strIt{it, func() string { return fmt.Sprint(it.Current().Key) }}
	case "chan":
		ch := make(chan int, n)
		for i := 0; i < n; i++ {
			ch <- i + 100
		}
		close(ch)
		it := seq.NewChanIter((<-chan int)(ch))
		return strIt{it, func() string { return fmt.Sprint(it.Current().Key) }}
	default:
		m := map[int]int{}
		for i := 0; i < n && i < 1; i++ {
			m[i] = i + 7
		}
		it := seq.NewMapIter(m)
		return strIt{it, func() string { return fmt.Sprint(it.Current().Key, it.Current().Val) }}
	}
}

// an exhausted built-in iterator is not advanced again (compiled loops never do; the property claims nothing there)
func drainSteps(it anyIter, steps int) (out []string) {
	done := false
	for i := 0; i < steps; i++ {
		if !done && it.MoveNext() {
			out = append(out, it.cur())
		} else {
			done = true
			out = append(out, "end")
		}
	}
	return
}

func TestC14BuiltinIterators(t *testing.T) {
	c := coll("C14")
	c.rule("k<=3 live built-in range iterators (string, slice, int, chan, map; same kind twice in half of the tuples) under all interleavings of 4 (k=2) / 3 (k=3) advances each, including advances after exhaustion; each must produce what it produces alone")
	var last *Replay
	defer func() {
		if last != nil {
			violation(t, last)
		}
	}()
	kinds := []string{"string", "string", "slice", "int", "chan", "map"}
	rapid.Check(t, func(rt *rapid.T) {
		k := rapid.IntRange(2, 3).Draw(rt, "k")
		m := 4
		if k == 3 {
			m = 3
		}
		var ks []string
		var ns []int
		first := rapid.SampledFrom(kinds).Draw(rt, "kind0")
		for i := 0; i < k; i++ {
			kind := first
			if i > 0 && rapid.Bool().Draw(rt, fmt.Sprint("other", i)) {
				kind = rapid.SampledFrom(kinds).Draw(rt, fmt.Sprint("kind", i))
			}
			ks = append(ks, kind)
			ns = append(ns, rapid.IntRange(0, 4).Draw(rt, fmt.Sprint("n", i)))
		}
		var want [][]string
		for i := range ks {
			want = append(want, drainSteps(mkBuiltin(ks[i], ns[i]), m))
		}
		counts := make([]int, k)
		for i := range counts {
			counts[i] = m
		}
		schedules(counts, func(order []int) {
			its := make([]anyIter, k)
			got := make([][]string, k)
			started := make([]bool, k)
			done := make([]bool, k)
			for _, i := range order {
				if !started[i] {
					// iterators are created lazily, at their first advance: creation interleaves too
					its[i] = mkBuiltin(ks[i], ns[i])
					started[i] = true
				}
				if !done[i] && its[i].MoveNext() {
					got[i] = append(got[i], its[i].cur())
				} else {
					done[i] = true
					got[i] = append(got[i], "end")
				}
			}
			c.eval(fmt.Sprint("builtin", ks, ns, order), true, "builtin-iterators")
			for i := range got {
				if j, g, w := diff(got[i], want[i]); j >= 0 {
					last = &Replay{Property: "C14", Kind: "builtin-iterators", Input: map[string]any{"kinds": ks, "sizes": ns, "schedule": append([]int{}, order...)},
						What: fmt.Sprintf("built-in iterators %v (sizes %v) under schedule %v: iterator %d step %d is %q, alone it is %q", ks, ns, order, i, j, g, w), Got: got[i], Want: want[i]}
					rt.Fatalf("%s", last.What)
				}
			}
		})
	})
}

// parallel consumption of the built-in range iterators (run with -race by ./check): every goroutine ranges over ITS OWN
// strings, slices, maps, channels and integers through seq.New*Iter, many times; each drain must equal the native range
// (maps: as a multiset) and the race detector must stay silent. State shared between iterator objects (a free list, a
// cache, a pooled cursor) is touched here from several goroutines at once.
func TestC14ParallelBuiltinIterators(t *testing.T) {
	c := coll("C14")
	c.rule("parallel built-in iterators: 4..8 goroutines, each repeatedly ranging over its own string/slice/map(8 entries)/chan/int via seq.New*Iter; every drain equals the native range (maps as multisets), race detector silent")
	var last *Replay
	defer func() {
		if last != nil {
			violation(t, last)
		}
	}()
	var mu sync.Mutex
	rapid.Check(t, func(rt *rapid.T) {
		g := rapid.IntRange(4, 8).Draw(rt, "goroutines")
		rounds := rapid.IntRange(20, 60).Draw(rt, "rounds")
		size := rapid.IntRange(1, 8).Draw(rt, "size")
		var wg sync.WaitGroup
		start := make(chan struct{})
		for gi := 0; gi < g; gi++ {
			wg.Add(1)
			go func(gi int) {
				defer wg.Done()
				defer func() {
					if r := recover(); r != nil {
						mu.Lock()
						last = &Replay{Property: "C14", Kind: "parallel-builtin-iterators", Input: map[string]any{"goroutines": g, "rounds": rounds, "size": size},
							What: fmt.Sprintf("goroutine %d: a built-in iterator over the goroutine's own collection panicked: %v", gi, r)}
						mu.Unlock()
					}
				}()
				<-start
				fail := func(kind string, got, want []string) {
					mu.Lock()
					defer mu.Unlock()
					if last == nil {
						last = &Replay{Property: "C14", Kind: "parallel-builtin-iterators", Input: map[string]any{"goroutines": g, "rounds": rounds, "size": size, "kind": kind},
							What: fmt.Sprintf("goroutine %d: %s iterator over the goroutine's own collection produced %v, the native range %v", gi, kind, got, want), Got: got, Want: want}
					}
				}
				for r := 0; r < rounds; r++ {
					base := gi*1000 + r
					// map
					m := map[int]int{}
					for i := 0; i < size; i++ {
						m[base*16+i] = i
					}
					var want, got []string
					for k, v := range m {
						want = append(want, fmt.Sprint(k, v))
					}
					for it := seq.NewMapIter(m); it.MoveNext(); {
						got = append(got, fmt.Sprint(it.Current().Key, it.Current().Val))
					}
					sort.Strings(want)
					sort.Strings(got)
					if fmt.Sprint(got) != fmt.Sprint(want) {
						fail("map", got, want)
						return
					}
					// string
					s := strings.Repeat("aé\xff€", size)[:size+gi%3]
					want, got = nil, nil
					for k, v := range s {
						want = append(want, fmt.Sprint(k, v))
					}
					for it := seq.NewStringIter(s); it.MoveNext(); {
						got = append(got, fmt.Sprint(it.Current().Key, it.Current().Val))
					}
					if fmt.Sprint(got) != fmt.Sprint(want) {
						fail("string", got, want)
						return
					}
					// slice
					xs := make([]int, size)
					for i := range xs {
						xs[i] = base + i
					}
					want, got = nil, nil
					for k, v := range xs {
						want = append(want, fmt.Sprint(k, v))
					}
					for it := seq.NewSliceIter(xs); it.MoveNext(); {
						got = append(got, fmt.Sprint(it.Current().Key, it.Current().Val))
					}
					if fmt.Sprint(got) != fmt.Sprint(want) {
						fail("slice", got, want)
						return
					}
					// chan
					ch := make(chan int, size)
					for i := 0; i < size; i++ {
						ch <- base + i
					}
					close(ch)
					want, got = nil, nil
					for i := 0; i < size; i++ {
						want = append(want, fmt.Sprint(base+i))
					}
					for it := seq.NewChanIter((<-chan int)(ch)); it.MoveNext(); {
						got = append(got, fmt.Sprint(it.Current().Key))
					}
					if fmt.Sprint(got) != fmt.Sprint(want) {
						fail("chan", got, want)
						return
					}
					// int
					want, got = nil, nil
					for i := range size {
						want = append(want, fmt.Sprint(i))
					}
					for it := seq.NewIntegerIter(size); it.MoveNext(); {
						got = append(got, fmt.Sprint(it.Current().Key))
					}
					if fmt.Sprint(got) != fmt.Sprint(want) {
						fail("int", got, want)
						return
					}
				}
			}(gi)
		}
		close(start)
		wg.Wait()
		c.eval(fmt.Sprint("parallel-builtin", g, rounds, size), true, "parallel-builtin-iterators")
		if last != nil {
			rt.Fatalf("%s", last.What)
		}
	})
}
