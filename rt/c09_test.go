package rt

import (
	"fmt"
	"testing"

	"github.com/goghcrow/go-co/seq"
	"pgregory.net/rapid"
)

// C09 — iterator protocol. Oracle: the protocol model (unstarted / suspended / done; current;
// result) over the reference coroutine; compared after every call: return value of the call and
// the generator-side events that ran inside it.

const ruleC09 = "operation histories over {MoveNext, Current, Send(1), Send(2), Result} on a family of generators; " +
	"case = (generator, history); non-trivial = the history advances after exhaustion, or Sends to an unstarted " +
	"generator, or calls Current >= 2 times between advances; distinct by hash of generator + history"

func b(v int, a *Term) *Term  { return &Term{K: "bind", Val: &Val{Const: v}, S: &Script{}, A: a} }
func br(v *Val, a *Term) *Term { return &Term{K: "bindrecv", Val: v, S: &Script{}, A: a} }
func n() *Term                 { return &Term{K: "normal"} }

// family of generators of C09: 0..n yields, finite / looping, with and without ReturnValue,
// echoing received values through BindRecv, logging every thunk.
func c09Family() []*Term {
	inc := func(v int) *Script { return &Script{Op: "inc", Var: v} }
	fam := []*Term{
		n(),
		{K: "retval", Val: &Val{Const: 7}},
		b(1, n()),
		b(1, b(2, n())),
		b(1, b(2, b(3, n()))),
		b(1, &Term{K: "retval", Val: &Val{Const: 9}}),
		br(&Val{Const: 1}, br(&Val{Recv: true}, &Term{K: "retval", Val: &Val{Recv: true, Const: 5}})),
		{K: "loop", A: &Term{K: "bind", Val: &Val{Dyn: true}, S: inc(0), A: n()}},
		{K: "for", Cond: &Cond{Lt: 2, Inc: true}, A: &Term{K: "bind", Val: &Val{Dyn: true, Const: 1}, S: &Script{}, A: n()}},
		{K: "loop", A: br(&Val{Recv: true, Const: 1}, n())},
		{K: "delay", S: &Script{}, A: b(1, &Term{K: "delay", S: &Script{}, A: n()})},
		{K: "combine", A: b(1, n()), B: b(2, n())},
		{K: "while", Cond: &Cond{Lt: 3}, A: &Term{K: "combine", A: b(4, n()), B: &Term{K: "delay", S: inc(0), A: n()}}},
		b(1, &Term{K: "break"}),
		{K: "for", Cond: &Cond{Lt: 2}, Post: inc(0), A: &Term{K: "combine", A: br(&Val{Dyn: true}, &Term{K: "continue"}), B: b(77, n())}},
		{K: "combine", A: &Term{K: "for", Cond: &Cond{Lt: 2, Inc: true}, A: b(3, n())}, B: &Term{K: "retval", Val: &Val{Dyn: true, Const: 1}}},
		// generator code that reads its own iterator's Current() while being advanced
		{K: "delay", S: &Script{Op: "self"}, A: &Term{K: "bind", Val: &Val{Const: 4}, S: &Script{Op: "self"}, A: &Term{K: "bind", Val: &Val{Const: 5}, S: &Script{Op: "self"}, A: n()}}},
		{K: "for", Cond: &Cond{Lt: 3, Inc: true}, Post: &Script{Op: "self"}, A: br(&Val{Dyn: true, Const: 2}, &Term{K: "delay", S: &Script{Op: "self"}, A: n()})},
		// a thunk that panics after values were delivered (Current after the recovered panic)
		b(1, b(2, &Term{K: "delay", S: &Script{Op: "panic"}, A: b(3, n())})),
	}
	for _, f := range fam {
		number(f)
	}
	return fam
}

func nontrivialHistory(tm *Term, ops []Op) bool {
	// classify with the model itself: run and watch
	e := newEnv(defaultFuel)
	m := &model{co: newRefCo(e, tm)}
	defer m.co.close()
	curRun := 0
	nt := false
	func() {
		defer func() { recover() }()
		for _, op := range ops {
			switch op.K {
			case "mn":
				if m.done {
					nt = true
				}
				m.MoveNext()
				curRun = 0
			case "send":
				if !m.started || m.done {
					nt = true
				}
				m.Send(op.V)
				curRun = 0
			case "cur":
				curRun++
				if curRun >= 2 {
					nt = true
				}
			}
		}
	}()
	return nt
}

func TestC09Exhaustive(t *testing.T) {
	c := coll("C09")
	c.rule(ruleC09)
	maxLen := 6
	if thorough() {
		maxLen = 7
	}
	alpha := []Op{{K: "mn"}, {K: "cur"}, {K: "send", V: 1}, {K: "send", V: 2}, {K: "res"}}
	fam := c09Family()
	reported := 0
	total := 0
	for gi, g := range fam {
		ops := make([]Op, 0, maxLen)
		var rec func()
		rec = func() {
			if len(ops) > 0 {
				total++
				h := append([]Op{}, ops...)
				rep, _ := compareTerm("C09", "history", g, h, defaultFuel)
				c.eval(fmt.Sprint(gi, opsString(h)), nontrivialHistory(g, h))
				if total%50021 == 0 {
					c.sample(map[string]any{"generator": g.String(), "history": opsString(h)})
				}
				if rep != nil && reported < 5 {
					reported++
					violation(t, shrinkTermReplay(rep))
				}
			}
			if len(ops) == maxLen {
				return
			}
			for _, o := range alpha {
				ops = append(ops, o)
				rec()
				ops = ops[:len(ops)-1]
			}
		}
		rec()
	}
	c.markExhaustive(fmt.Sprintf("all %d histories of length 1..%d over {mn,cur,send(1),send(2),res} x %d generators", total, maxLen, len(fam)))
}

// state-machine test: rapid drives one operation at a time against implementation and model and
// checks the invariant after every step.
func TestC09StateMachine(t *testing.T) {
	c := coll("C09")
	c.rule(ruleC09)
	c.rule("rapid state machine (t.Repeat) with histories up to rapid's step bound on random terms from the C08 generator")
	var last *Replay
	// rapid.Check ends the test goroutine on failure (FailNow): report from a deferred call
	defer func() {
		if last != nil {
			violation(t, last)
		}
	}()
	k := 0
	rapid.Check(t, func(rt *rapid.T) {
		tm := genTerm(termOpts{maxDepth: 5}).Draw(rt, "term")
		ie, re := newEnv(defaultFuel), newEnv(defaultFuel)
		impl := seq.Start(ie.build(tm)).(seq.Generator[int])
		m := &model{co: newRefCo(re, tm)}
		defer m.co.close()
		var ops []Op
		nt := false
		curRun := 0
		dead := false
		step := func(op Op) {
			if dead {
				return // iterator panicked (fuel exhausted): its state is unspecified from here on
			}
			ops = append(ops, op)
			im, rm := len(ie.trace), len(re.trace)
			var got, want string
			run := func(g gen4, done func() bool) (res string) {
				defer func() {
					if r := recover(); r != nil {
						dead = true
						res = fmt.Sprintf("PANIC %v", r)
					}
				}()
				switch op.K {
				case "mn":
					return fmt.Sprint(g.MoveNext())
				case "cur":
					return fmt.Sprint(g.Current())
				case "send":
					v, ok := g.Send(op.V)
					return fmt.Sprint(v, ok)
				default:
					v := g.Result()
					if done() {
						return fmt.Sprint(v)
					}
					return "-"
				}
			}
			want = run(m, func() bool { return m.done }) + fmt.Sprint(re.trace[rm:])
			got = run(impl, func() bool { return m.done }) + fmt.Sprint(ie.trace[im:])
			if got != want {
				last = &Replay{Property: "C09", Kind: "history", Term: tm, Ops: append([]Op{}, ops...), Fuel: defaultFuel,
					What: fmt.Sprintf("after [%s] on %s: impl %q, model %q", opsString(ops), tm, got, want),
					Got:  []string{got}, Want: []string{want}}
				rt.Fatalf("%s", last.What)
			}
		}
		rt.Repeat(map[string]func(*rapid.T){
			"mn": func(*rapid.T) {
				if m.done {
					nt = true
				}
				curRun = 0
				step(Op{K: "mn"})
			},
			"cur": func(*rapid.T) {
				curRun++
				if curRun >= 2 {
					nt = true
				}
				step(Op{K: "cur"})
			},
			"send": func(t *rapid.T) {
				if !m.started || m.done {
					nt = true
				}
				curRun = 0
				step(Op{K: "send", V: rapid.IntRange(1, 3).Draw(t, "v")})
			},
			"res": func(*rapid.T) { step(Op{K: "res"}) },
		})
		c.eval(tm.JSON()+opsString(ops), nt)
		k++
		if k%700 == 1 {
			c.sample(map[string]any{"generator": tm.String(), "history": opsString(ops)})
		}
	})
}
