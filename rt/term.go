// Package rt is engine R: property-based tests of package seq through its public API only.
//
// term.go: a data language mirroring the combinators, a builder that turns a term into a real
// seq.Seq, and an independent reference interpreter (structured loops with break/continue/return
// over an iter.Pull coroutine) that shares no code with seq.
package rt

import (
	"encoding/json"
	"fmt"
	"iter"
	"runtime"

	"github.com/goghcrow/go-co/seq"
)

// ---------------------------------------------------------------------------------------------
// term language

// Script is the tiny imperative program run by a thunk or a loop post.
type Script struct {
	Ev    int    `json:"ev"`              // event id written to the trace when the script runs
	Op    string `json:"op,omitempty"`    // "", "inc", "reset", "panic", "rtpanic", "self" (log Current() of the iterator that runs the script)
	Var   int    `json:"var,omitempty"`   // variable the op works on
	Probe bool   `json:"probe,omitempty"` // record the call-stack depth (C17)
}

// Cond is a loop condition: logs, tests x[Var] < Lt, optionally increments afterwards.
type Cond struct {
	Ev    int  `json:"ev"`
	Var   int  `json:"var,omitempty"`
	Lt    int  `json:"lt"`
	Inc   bool `json:"inc,omitempty"`
	Panic bool `json:"panic,omitempty"` // panic when the test would be false (C18)
	Probe bool `json:"probe,omitempty"`
}

// Val is the value expression of Bind/BindRecv/ReturnValue, evaluated when the term is built.
type Val struct {
	Const int  `json:"c"`
	Dyn   bool `json:"dyn,omitempty"`  // + 10*x[Var]
	Var   int  `json:"var,omitempty"`
	Recv  bool `json:"recv,omitempty"` // + 100*(last received value)
}

type Term struct {
	K    string  `json:"k"` // normal break continue return retval delay bind bindrecv combine for while loop if (= a thunk choosing between A and B by Cond)
	Val  *Val    `json:"val,omitempty"`
	S    *Script `json:"s,omitempty"`
	Cond *Cond   `json:"cond,omitempty"`
	Post *Script `json:"post,omitempty"`
	A    *Term   `json:"a,omitempty"`
	B    *Term   `json:"b,omitempty"`
}

func (t *Term) String() string {
	if t == nil {
		return "nil"
	}
	sv := func(v *Val) string {
		if v == nil {
			return "0"
		}
		s := fmt.Sprint(v.Const)
		if v.Dyn {
			s += fmt.Sprintf("+10*x%d", v.Var)
		}
		if v.Recv {
			s += "+100*recv"
		}
		return s
	}
	ss := func(s *Script) string {
		if s == nil {
			return "-"
		}
		r := fmt.Sprintf("e%d", s.Ev)
		if s.Op != "" {
			r += fmt.Sprintf(";%s x%d", s.Op, s.Var)
		}
		return r
	}
	sc := func(c *Cond) string {
		if c == nil {
			return "nil"
		}
		r := fmt.Sprintf("e%d;x%d<%d", c.Ev, c.Var, c.Lt)
		if c.Inc {
			r += ";++"
		}
		if c.Panic {
			r += ";panic-if-false"
		}
		return r
	}
	switch t.K {
	case "normal", "break", "continue", "return":
		return t.K
	case "retval":
		return "retval(" + sv(t.Val) + ")"
	case "delay":
		return "delay{" + ss(t.S) + "}(" + t.A.String() + ")"
	case "bind", "bindrecv":
		return t.K + "(" + sv(t.Val) + "){" + ss(t.S) + "}(" + t.A.String() + ")"
	case "combine":
		return "combine(" + t.A.String() + ", " + t.B.String() + ")"
	case "twice":
		return "twice(" + t.A.String() + ")"
	case "for":
		return "for[" + sc(t.Cond) + "|" + ss(t.Post) + "](" + t.A.String() + ")"
	case "while":
		return "while[" + sc(t.Cond) + "](" + t.A.String() + ")"
	case "loop":
		return "loop(" + t.A.String() + ")"
	case "if":
		return "if[" + sc(t.Cond) + "](" + t.A.String() + ", " + t.B.String() + ")"
	}
	return "?" + t.K
}

func (t *Term) JSON() string {
	b, _ := json.Marshal(t)
	return string(b)
}

func (t *Term) Size() int {
	if t == nil {
		return 0
	}
	return 1 + t.A.Size() + t.B.Size()
}

// ---------------------------------------------------------------------------------------------
// environment shared by scripts (one instance per execution; the script executor is harness code,
// the control flow around it is what differs between implementation and reference)

type fuelOut struct{}

func (fuelOut) String() string { return "fuel-exhausted" }

type scriptPanic struct{ Ev int }

const nVars = 3

type env struct {
	x        [nVars]int
	lastRecv int
	trace    []string
	fuel     int
	depths   []int // stack depths recorded by probes
	self     func() int // Current() of the iterator executing the scripts (implementation: the generator, reference: the model)

	// statistics kept by the reference interpreter only (non-triviality rules)
	maxIters int  // largest number of body executions of one loop activation
	sigCross bool // a non-normal signal crossed a Combine
	yields   int
}

func newEnv(fuel int) *env { return &env{fuel: fuel} }

func (e *env) log(format string, a ...any) {
	e.trace = append(e.trace, fmt.Sprintf(format, a...))
}

func (e *env) burn() {
	e.fuel--
	if e.fuel < 0 {
		panic(fuelOut{})
	}
}

// stackDepth returns the number of frames on the call stack, saturating at maxProbeDepth so a
// probe costs O(1) even when the stack is (wrongly) tens of thousands of frames deep.
const maxProbeDepth = 2048

func stackDepth() int {
	var pcs [maxProbeDepth]uintptr
	return runtime.Callers(0, pcs[:])
}

func (e *env) script(tag string, s *Script) {
	if s == nil {
		return
	}
	e.burn()
	e.log("%s%d", tag, s.Ev)
	if s.Probe {
		e.depths = append(e.depths, stackDepth())
	}
	switch s.Op {
	case "inc":
		e.x[s.Var]++
	case "reset":
		e.x[s.Var] = 0
	case "self":
		// generator code reading its own iterator while an advance is in progress: the latest successful
		// advance is the previous one
		if e.self != nil {
			e.log("self=%d", e.self())
		}
	case "panic":
		panic(scriptPanic{s.Ev})
	case "rtpanic":
		var m map[int]int
		m[s.Ev] = 1 // runtime error: assignment to entry in nil map
	}
}

func (e *env) cond(c *Cond) bool {
	e.burn()
	ok := e.x[c.Var] < c.Lt
	e.log("c%d=%v", c.Ev, ok)
	if c.Probe {
		e.depths = append(e.depths, stackDepth())
	}
	if c.Inc {
		e.x[c.Var]++
	}
	if !ok && c.Panic {
		panic(scriptPanic{c.Ev})
	}
	return ok
}

func (e *env) val(v *Val) int {
	if v == nil {
		return 0
	}
	r := v.Const
	if v.Dyn {
		r += 10 * e.x[v.Var]
	}
	if v.Recv {
		r += 100 * e.lastRecv
	}
	return r
}

// ---------------------------------------------------------------------------------------------
// implementation side: term -> real seq.Seq[int], exactly the way a user of the API would write it

func (e *env) build(t *Term) seq.Seq[int] {
	switch t.K {
	case "normal":
		return seq.Normal[int]()
	case "break":
		return seq.Break[int]()
	case "continue":
		return seq.Continue[int]()
	case "return":
		return seq.Return[int]()
	case "retval":
		return seq.ReturnValue(e.val(t.Val))
	case "delay":
		return seq.Delay(func() seq.Seq[int] {
			e.script("d", t.S)
			return e.build(t.A)
		})
	case "bind":
		return seq.Bind(e.val(t.Val), func() seq.Seq[int] {
			e.script("k", t.S)
			return e.build(t.A)
		})
	case "bindrecv":
		return seq.BindRecv(e.val(t.Val), func(r int) seq.Seq[int] {
			e.lastRecv = r
			e.log("recv=%d", r)
			e.script("k", t.S)
			return e.build(t.A)
		})
	case "combine":
		a := e.build(t.A)
		b := e.build(t.B)
		return seq.Combine(a, b)
	case "twice":
		// ONE Seq value at two places of a term (x := ..; Combine(x, x)): a Seq is a description, running it twice in one
		// coroutine must behave like running two copies
		a := e.build(t.A)
		return seq.Combine(a, a)
	case "for":
		var cond func() bool
		if t.Cond != nil {
			cond = func() bool { return e.cond(t.Cond) }
		}
		var post func()
		if t.Post != nil {
			post = func() { e.script("p", t.Post) }
		}
		return seq.For(cond, post, e.build(t.A))
	case "while":
		return seq.While(func() bool { return e.cond(t.Cond) }, e.build(t.A))
	case "loop":
		return seq.Loop(e.build(t.A))
	case "if":
		// what `if c { ..A.. } else { ..B.. }` looks like with the API: a thunk that picks one of two sequences
		return seq.Delay(func() seq.Seq[int] {
			if e.cond(t.Cond) {
				return e.build(t.A)
			}
			return e.build(t.B)
		})
	}
	panic("bad term kind " + t.K)
}

// ---------------------------------------------------------------------------------------------
// reference side

type sig int

const (
	sNormal sig = iota
	sBreak
	sContinue
	sReturn
)

// rterm is a term whose non-thunk spine has been "constructed": the values that Go evaluates when
// the combinator calls are made (Bind/ReturnValue arguments) are resolved; sub-terms behind thunks
// are constructed when the thunk runs.
type rterm struct {
	t    *Term
	val  int
	a, b *rterm
}

func (e *env) rbuild(t *Term) *rterm {
	r := &rterm{t: t}
	switch t.K {
	case "bind", "bindrecv", "retval":
		r.val = e.val(t.Val)
	case "combine":
		r.a = e.rbuild(t.A)
		r.b = e.rbuild(t.B)
	case "twice":
		r.a = e.rbuild(t.A)
		r.b = r.a
	case "for", "while", "loop":
		r.a = e.rbuild(t.A)
	}
	return r
}

// rrun executes a constructed term as a structured program. y suspends with a value and returns
// the value the consumer resumed with.
func (e *env) rrun(r *rterm, y func(int) int) (sig, int) {
	t := r.t
	switch t.K {
	case "normal":
		return sNormal, 0
	case "break":
		return sBreak, 0
	case "continue":
		return sContinue, 0
	case "return":
		return sReturn, 0
	case "retval":
		return sReturn, r.val
	case "delay":
		e.script("d", t.S)
		return e.rrun(e.rbuild(t.A), y)
	case "if":
		if e.cond(t.Cond) {
			return e.rrun(e.rbuild(t.A), y)
		}
		return e.rrun(e.rbuild(t.B), y)
	case "bind":
		e.yields++
		y(r.val)
		e.script("k", t.S)
		return e.rrun(e.rbuild(t.A), y)
	case "bindrecv":
		e.yields++
		got := y(r.val)
		e.lastRecv = got
		e.log("recv=%d", got)
		e.script("k", t.S)
		return e.rrun(e.rbuild(t.A), y)
	case "combine", "twice":
		s, v := e.rrun(r.a, y)
		if s != sNormal {
			e.sigCross = true
			return s, v
		}
		return e.rrun(r.b, y)
	case "for", "while", "loop":
		first := true
		iters := 0
		for {
			if !first && t.K == "for" && t.Post != nil {
				e.script("p", t.Post)
			}
			first = false
			if t.K != "loop" && t.Cond != nil && !e.cond(t.Cond) {
				return sNormal, 0
			}
			iters++
			if iters > e.maxIters {
				e.maxIters = iters
			}
			s, v := e.rrun(r.a, y)
			switch s {
			case sBreak:
				return sNormal, 0
			case sReturn:
				return sReturn, v
			}
		}
	}
	panic("bad term kind " + t.K)
}

// refCo is the reference coroutine: the structured program suspended at yields.
type refCo struct {
	next     func() (int, bool)
	stop     func()
	sent     int
	result   int
	finished bool
}

type stopSentinel struct{}

func newRefCo(e *env, t *Term) *refCo {
	c := &refCo{}
	top := e.rbuild(t) // the term is constructed when the iterator is created
	c.next, c.stop = iter.Pull(func(yield func(int) bool) {
		y := func(v int) int {
			if !yield(v) {
				panic(stopSentinel{})
			}
			return c.sent
		}
		_, v := e.rrun(top, y)
		c.result = v
		c.finished = true
	})
	return c
}

func (c *refCo) resume(sent int) (int, bool) {
	c.sent = sent
	return c.next()
}

func (c *refCo) close() {
	defer func() {
		if r := recover(); r != nil {
			if _, ok := r.(stopSentinel); !ok {
				// a script panicked while being torn down: irrelevant for the comparison
				_ = r
			}
		}
	}()
	c.stop()
}

// model is the protocol state machine of C09 on top of the reference coroutine.
type model struct {
	co      *refCo
	started bool
	done    bool
	cur     int
	result  int
}

func (m *model) advance(sent int) bool {
	if m.done {
		return false
	}
	v, ok := m.co.resume(sent)
	if !ok {
		m.done = true
		m.cur = 0
		m.result = m.co.result
		return false
	}
	m.cur = v
	return true
}

func (m *model) MoveNext() bool {
	m.started = true
	return m.advance(0)
}

func (m *model) Send(v int) (int, bool) {
	if !m.started {
		if !m.MoveNext() {
			return 0, false
		}
	}
	if m.advance(v) {
		return m.cur, true
	}
	return 0, false
}

func (m *model) Current() int { return m.cur }
func (m *model) Result() int  { return m.result }

// ---------------------------------------------------------------------------------------------
// histories

// Op is one consumer call.
type Op struct {
	K string `json:"k"` // mn cur send res
	V int    `json:"v,omitempty"`
}

func (o Op) String() string {
	if o.K == "send" {
		return fmt.Sprintf("send(%d)", o.V)
	}
	return o.K
}

type gen4 interface {
	MoveNext() bool
	Current() int
	Send(int) (int, bool)
	Result() int
}

// transcript runs ops against g; every entry is "<op> -> <result> | <events during the call>".
// It stops at the first panic (the state of a panicked iterator is not specified).
// Result is only recorded once the generator has completed (isDone reports that).
func transcript(e *env, g gen4, ops []Op, isDone func() bool) (out []string, panicked bool) {
	for _, op := range ops {
		mark := len(e.trace)
		var res string
		func() {
			defer func() {
				if r := recover(); r != nil {
					panicked = true
					res = fmt.Sprintf("PANIC %T %v", r, r)
				}
			}()
			switch op.K {
			case "mn":
				res = fmt.Sprint(g.MoveNext())
			case "cur":
				res = fmt.Sprint(g.Current())
			case "send":
				v, ok := g.Send(op.V)
				res = fmt.Sprint(v, ok)
			case "res":
				v := g.Result()
				if isDone() {
					res = fmt.Sprint(v)
				} else {
					res = "-"
				}
			}
		}()
		out = append(out, fmt.Sprintf("%s -> %s | %v", op, res, e.trace[mark:]))
		if panicked {
			// the advance that panicked was not successful: Current still is the value delivered by the latest
			// successful advance (C09), "the values delivered before that step are unaffected" (C18). Nothing else
			// is asked of a panicked iterator.
			func() {
				defer func() {
					if r := recover(); r != nil {
						out = append(out, fmt.Sprintf("cur after the panic -> PANIC %v", r))
					}
				}()
				out = append(out, fmt.Sprintf("cur after the panic -> %d", g.Current()))
			}()
			// what a further advance does with an iterator whose step panicked is not specified (the runtime re-runs the
			// step, a coroutine is dead) - except that whatever comes out of it comes from GENERATOR code: a panic with a
			// value no script raises (a runtime-internal complaint such as "already running") is foreign. Only the real
			// runtime is advanced again; both transcripts record the verdict.
			verdict := "re-advance after the panic -> ok"
			if _, isModel := g.(*model); !isModel {
				func() {
					defer func() {
						if r := recover(); r != nil {
							switch r.(type) {
							case scriptPanic, fuelOut, runtime.Error:
							default:
								verdict = fmt.Sprintf("re-advance after the panic -> FOREIGN PANIC %T %v", r, r)
							}
						}
					}()
					g.MoveNext()
				}()
			}
			out = append(out, verdict)
			return
		}
	}
	return
}

const defaultFuel = 200

// runImpl executes the history on the real runtime.
func runImpl(t *Term, ops []Op, fuel int) (tr []string, e *env, panicked bool) {
	e = newEnv(fuel)
	var built []string
	var it seq.Iterator[int]
	func() {
		defer func() {
			if r := recover(); r != nil {
				built = []string{fmt.Sprintf("construct PANIC %T %v", r, r)}
				panicked = true
			}
		}()
		it = seq.Start(e.build(t))
	}()
	if panicked {
		return built, e, true
	}
	pre := fmt.Sprintf("construct | %v", e.trace)
	g := it.(seq.Generator[int])
	e.self = g.Current
	// completion is only observable through the protocol: an advance reported false
	done := false
	w := &doneWatch{g: g, done: &done}
	tr, panicked = transcript(e, w, ops, func() bool { return done })
	return append([]string{pre}, tr...), e, panicked
}

type doneWatch struct {
	g    seq.Generator[int]
	done *bool
}

func (w *doneWatch) MoveNext() bool {
	ok := w.g.MoveNext()
	if !ok {
		*w.done = true
	}
	return ok
}
func (w *doneWatch) Current() int { return w.g.Current() }
func (w *doneWatch) Send(v int) (int, bool) {
	r, ok := w.g.Send(v)
	if !ok {
		*w.done = true
	}
	return r, ok
}
func (w *doneWatch) Result() int { return w.g.Result() }

// runRef executes the history on the protocol model over the reference interpreter.
func runRef(t *Term, ops []Op, fuel int) (tr []string, e *env, panicked bool) {
	e = newEnv(fuel)
	var m *model
	var built []string
	func() {
		defer func() {
			if r := recover(); r != nil {
				built = []string{fmt.Sprintf("construct PANIC %T %v", r, r)}
				panicked = true
			}
		}()
		m = &model{co: newRefCo(e, t)}
	}()
	if panicked {
		return built, e, true
	}
	e.self = m.Current
	defer m.co.close()
	pre := fmt.Sprintf("construct | %v", e.trace)
	tr, panicked = transcript(e, m, ops, func() bool { return m.done })
	return append([]string{pre}, tr...), e, panicked
}

func diff(a, b []string) (int, string, string) {
	n := len(a)
	if len(b) > n {
		n = len(b)
	}
	for i := 0; i < n; i++ {
		var x, y string
		if i < len(a) {
			x = a[i]
		} else {
			x = "<missing>"
		}
		if i < len(b) {
			y = b[i]
		} else {
			y = "<missing>"
		}
		if x != y {
			return i, x, y
		}
	}
	return -1, "", ""
}
