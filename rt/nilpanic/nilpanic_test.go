//go:debug panicnil=1

// Package nilpanic holds the one C18 test that needs another runtime default than the rest of engine R: with
// `//go:debug panicnil=1` (the default of every main module that says go <= 1.20, as go-co's own go.mod does) panic(nil) is a
// panic whose recovered value is nil. "A panic raised by generator code propagates, with its original value, out of exactly the
// MoveNext or Send call whose step executed the panicking statement - never ... swallowed": a runtime that re-raises what it
// recovered `if r != nil` swallows exactly this one.
package nilpanic

import (
	"encoding/json"
	"fmt"
	"os"
	"path/filepath"
	"testing"

	"github.com/goghcrow/go-co/seq"
	_ "pgregory.net/rapid" // registers the -rapid.* flags the check passes to every package of engine R
)

// advance reports whether MoveNext returned (and what) or panicked; a nil panic is recognised by the missing return
func advance(it seq.Iterator[int]) (ok, panicked bool) {
	returned := false
	defer func() {
		_ = recover()
		panicked = !returned
	}()
	ok = it.MoveNext()
	returned = true
	return
}

func nilPanic() seq.Seq[int] {
	panic(nil)
}

type scenario struct {
	name string
	mk   func(log *[]string) seq.Iterator[int]
	// expected transcript: values delivered, then "PANIC" at the advance that runs the panicking step
	want []string
}

func scenarios() []scenario {
	ev := func(log *[]string, s string) { *log = append(*log, s) }
	return []scenario{
		{name: "thunk-after-a-yield", want: []string{"1", "PANIC"}, mk: func(log *[]string) seq.Iterator[int] {
			return seq.Start(seq.Delay(func() seq.Seq[int] {
				return seq.Bind(1, func() seq.Seq[int] { ev(log, "after 1"); return nilPanic() })
			}))
		}},
		{name: "loop-condition", want: []string{"7", "PANIC"}, mk: func(log *[]string) seq.Iterator[int] {
			n := 0
			return seq.Start(seq.While(func() bool {
				n++
				if n == 2 {
					panic(nil)
				}
				return true
			}, seq.Delay(func() seq.Seq[int] { return seq.Bind(7, seq.Normal[int]) })))
		}},
		{name: "loop-post", want: []string{"5", "PANIC"}, mk: func(log *[]string) seq.Iterator[int] {
			return seq.Start(seq.For(func() bool { return true }, func() { panic(nil) },
				seq.Delay(func() seq.Seq[int] { return seq.Bind(5, seq.Normal[int]) })))
		}},
		{name: "inside-a-delegate", want: []string{"10", "1", "PANIC"}, mk: func(log *[]string) seq.Iterator[int] {
			// outer: Yield(10); YieldFrom(inner); Yield(20)   inner: Yield(1); panic(nil)
			return seq.Start(seq.Delay(func() seq.Seq[int] {
				return seq.Bind(10, func() seq.Seq[int] {
					inner := seq.Start(seq.Delay(func() seq.Seq[int] {
						return seq.Bind(1, func() seq.Seq[int] { return nilPanic() })
					}))
					return seq.Combine(
						seq.While(inner.MoveNext, seq.Delay(func() seq.Seq[int] { return seq.Bind(inner.Current(), seq.Normal[int]) })),
						seq.Delay(func() seq.Seq[int] { ev(log, "after the delegation"); return seq.Bind(20, seq.Normal[int]) }),
					)
				})
			}))
		}},
	}
}

func TestC18NilPanic(t *testing.T) {
	for _, sc := range scenarios() {
		var log []string
		it := sc.mk(&log)
		var got []string
		for i := 0; i < 6; i++ {
			ok, panicked := advance(it)
			if panicked {
				got = append(got, "PANIC")
				break
			}
			if !ok {
				got = append(got, "END")
				break
			}
			got = append(got, fmt.Sprint(it.Current()))
		}
		if fmt.Sprint(got) != fmt.Sprint(sc.want) {
			what := fmt.Sprintf("panic(nil) in generator code under //go:debug panicnil=1, scenario %s: the consumer saw %v (effects %v), expected %v: the panic must come out of the advance that ran the statement, not be swallowed", sc.name, got, log, sc.want)
			dir := os.Getenv("VERIF_REPLAY_DIR")
			if dir == "" {
				dir = "/verif/replays"
			}
			dir = filepath.Join(dir, "C18")
			_ = os.MkdirAll(dir, 0o755)
			path := filepath.Join(dir, "R-nil-panic-"+sc.name+".json")
			b, _ := json.MarshalIndent(map[string]any{"property": "C18", "engine": "R", "kind": "nil-panic", "scenario": sc.name, "what": what, "got": got, "want": sc.want}, "", " ")
			_ = os.WriteFile(path, b, 0o644)
			fmt.Printf("VIOLATION property=C18 replay=%s\n", path)
			t.Errorf("%s", what)
		}
	}
}
