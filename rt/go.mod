module verif/rt

go 1.23

require (
	github.com/goghcrow/go-co v0.0.0
	pgregory.net/rapid v1.3.0
)

replace github.com/goghcrow/go-co => /repo
