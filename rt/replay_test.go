package rt

import (
	"encoding/json"
	"fmt"
	"os"
	"testing"
)

// TestReplay re-runs the comparison stored in a replay file, bypassing rapid.
//   VERIF_REPLAY=/verif/replays/C08/R-term-xxxx.json go test -run '^TestReplay$'
func TestReplay(t *testing.T) {
	path := os.Getenv("VERIF_REPLAY")
	if path == "" {
		t.Skip("VERIF_REPLAY not set")
	}
	b, err := os.ReadFile(path)
	if err != nil {
		t.Fatal(err)
	}
	var r Replay
	if err := json.Unmarshal(b, &r); err != nil {
		t.Fatal(err)
	}
	fail := func(what string) {
		fmt.Printf("VIOLATION property=%s replay=%s\n", r.Property, path)
		t.Errorf("%s", what)
	}
	switch r.Kind {
	case "term", "history":
		if rep, _ := compareTerm(r.Property, r.Kind, r.Term, r.Ops, r.Fuel); rep != nil {
			fail(rep.What)
		}
	case "law":
		got, _, _ := runImpl(r.Terms[0], r.Ops, r.Fuel)
		want, _, _ := runImpl(r.Terms[1], r.Ops, r.Fuel)
		if i, g, w := diff(got, want); i >= 0 {
			fail(fmt.Sprintf("law: step %d: lhs %q rhs %q", i, g, w))
		}
	case "string":
		var s string
		fmt.Sscanf(fmt.Sprint(r.Input), "%q", &s)
		c := coll(r.Property)
		n := 0
		checkString(t, c, s, &n)
	case "stack":
		var cs c17Case
		bb, _ := json.Marshal(r.Input)
		_ = json.Unmarshal(bb, &cs)
		if rep := checkC17(t, coll(r.Property), cs); rep != nil {
			fail(rep.What)
		}
	case "slice":
		var sc sliceCase
		bb, _ := json.Marshal(r.Input)
		_ = json.Unmarshal(bb, &sc)
		got, want, _ := runSliceCase(sc)
		if fmt.Sprint(got) != fmt.Sprint(want) {
			fail(fmt.Sprintf("slice %+v: got %v want %v", sc, got, want))
		}
	case "map":
		var mc mapCase
		bb, _ := json.Marshal(r.Input)
		_ = json.Unmarshal(bb, &mc)
		var e string
		func() {
			defer func() {
				if p := recover(); p != nil {
					e = fmt.Sprint("panic: ", p)
				}
			}()
			e, _, _ = checkMapCase(mc)
		}()
		if e != "" {
			fail(e)
		}
	default:
		// table-driven kinds (integer, map-types, slice-any, chan, interleave, parallel, delegation) are
		// re-run by their own deterministic tests
		t.Logf("kind %q is replayed by re-running its test: go test -run TestC..", r.Kind)
	}
}
