#!/bin/bash
# Run once after a fresh restore, offline: builds the framework from files on disk only.
set -e
cd "$(dirname "$0")"
export GOFLAGS=-mod=mod GOPROXY=off GOSUMDB=off GOTOOLCHAIN=local
mkdir -p bin evidence replays logs
if [ -d orch ]; then
  (cd orch && go build -o ../bin/orch .)
fi
# warm the build cache of the engine R test package (checks rebuild it from /repo's tree anyway)
(cd rt && go vet . >/dev/null 2>&1 || true)
echo setup ok
