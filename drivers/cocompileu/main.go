//go:build verif

// cocompileu runs only the rewrite stage (the unoptimised intermediate code that production deletes)
// through the verif-tagged hook rewriter.VerifRewriteOnly.
//
//	cocompileu <srcDir> <dstDir>
package main

import (
	"fmt"
	"os"

	"github.com/goghcrow/go-co/rewriter"
	"github.com/goghcrow/go-loader"
)

func main() {
	if len(os.Args) != 3 {
		fmt.Fprintln(os.Stderr, "usage: cocompileu src dst")
		os.Exit(2)
	}
	defer func() {
		if r := recover(); r != nil {
			fmt.Fprintf(os.Stderr, "COMPILER-PANIC: %v\n", r)
			os.Exit(3)
		}
	}()
	rewriter.VerifRewriteOnly(os.Args[1], os.Args[2], loader.WithLoadTest())
}
