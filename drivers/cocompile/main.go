// cocompile drives rewriter.Compile from an ordinary main binary (not a *.test binary), i.e. in
// production mode: unique helper names on, temporary directory removed, source comments attached.
//
//	cocompile <srcDir> <dstDir>
//
// exit 0: compiled; exit 3: the compiler panicked (diagnostic on stderr); other: usage/IO error.
package main

import (
	"fmt"
	"os"
	"runtime/debug"

	"github.com/goghcrow/go-co/rewriter"
	"github.com/goghcrow/go-loader"
)

func main() {
	if len(os.Args) != 3 {
		fmt.Fprintln(os.Stderr, "usage: cocompile src dst")
		os.Exit(2)
	}
	defer func() {
		if r := recover(); r != nil {
			fmt.Fprintf(os.Stderr, "COMPILER-PANIC: %v\n", r)
			if os.Getenv("COCOMPILE_STACK") != "" {
				fmt.Fprintf(os.Stderr, "%s\n", debug.Stack())
			}
			os.Exit(3)
		}
	}()
	rewriter.Compile(os.Args[1], os.Args[2], loader.WithLoadTest())
}
