# properties served by engine T (volumes per tier live in orch/props*.go)
PLAN_T = {p: True for p in ["C01", "C02", "C03", "C04", "C05", "C06", "C07", "C10", "C11", "C12", "C13", "C14", "C15", "C16", "C17", "C18"]}
