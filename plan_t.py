# properties served by engine T (volumes per tier live in orch/props.go)
PLAN_T = {
    "C01": True,
    "C11": True,
}
