#!/usr/bin/env python3
"""Automated mutation analysis of the compiler (rewriter/*.go) against the engine-T checks.

  selftest/mutate_rw.py [--limit N] [--jobs J] [--out FILE]

For every single-line syntactic mutant (operator flips, dropped statements, off-by-one, swapped constants) that
  (a) still builds and (b) still passes the project's own compiler tests (./rewriter: the golden files of TestRewrite),
the quick tier of the engine-T checks is run against a scratch copy of the tree with the mutant applied (VERIF_REPO), in the
order C11 C01 C04 C03 C05 C06 C13 C12 C07 C02 C18, stopping at the first check that reports a violation.
Output: one line per mutant - KILLED-BY-BASELINE / CAUGHT <check> / SURVIVED - and a summary.
Survivors are either equivalent mutants or blind spots: they are looked at by hand (verdicts appended to the output file).
Measurement tool, not a registered check; never touches /repo or /verif/evidence.
"""
import os, re, shutil, subprocess, sys, tempfile, concurrent.futures, json

REPO = os.environ.get("VERIF_REPO", "/repo")
VERIF = os.path.dirname(os.path.dirname(os.path.abspath(__file__)))
ENV = dict(os.environ, GOFLAGS="-mod=mod", GOPROXY="off", GOSUMDB="off", GOTOOLCHAIN="local")
FILES = ["rewriter/yield_rewrite.go", "rewriter/return.go", "rewriter/range.go", "rewriter/etc.go", "rewriter/optimize.go", "rewriter/rewrite.go", "rewriter/yieldfrom_rewrite.go", "rewriter/yield_block.go", "rewriter/yield_ast.go"]

RULES = [
    (r"==", "!="), (r"!=", "=="), (r"<=", "<"), (r">=", ">"), (r"(?<![<-])<(?![=-])", "<="), (r"(?<![->])>(?!=)", ">="),
    (r"&&", "||"), (r"\|\|", "&&"), (r"\btrue\b", "false"), (r"\bfalse\b", "true"),
    (r"\+\+", "--"), (r"\+= ", "-= "), (r" \+ 1\b", " + 0"), (r" - 1\b", " - 0"), (r"\b-1\b", "0"),
    (r"\bkindIf\b", "kindSwitch"), (r"\bkindFor\b", "kindIf"), (r"\btoken\.BREAK\b", "token.CONTINUE"), (r"\btoken\.DEFINE\b", "token.ASSIGN"), (r"\bisLast\b", "false"),
    (r"!(\w)", r"\1"),
]
DROP = re.compile(r"^\s*(\w[\w.\[\]]*(, \w[\w.\[\]]*)* (=|:=) .*|\w[\w.]*\(.*\)|\w[\w.]*(\+\+|--)|return .*|defer .*)$")


def mutants():
    out = []
    for f in FILES:
        lines = open(os.path.join(REPO, f)).read().split("\n")
        for i, l in enumerate(lines):
            code = l.split("//")[0]
            if not code.strip() or code.strip().startswith(("package", "import", "func ", "type ", "}", ")", "case ", "default", "var ", "const ")):
                if not code.strip().startswith(("case ",)):
                    continue
            for (pat, rep) in RULES:
                for m in re.finditer(pat, code):
                    new = code[:m.start()] + m.expand(rep) + code[m.end():] + l[len(code):]
                    if new != l:
                        out.append((f, i, l.strip(), new.strip(), new))
            if DROP.match(code) and not code.strip().startswith("return"):
                indent = l[:len(l) - len(l.lstrip())]
                out.append((f, i, l.strip(), "(statement dropped)", indent + "_ = 0"))
    return out


def run(cmd, cwd, timeout):
    try:
        p = subprocess.run(cmd, cwd=cwd, env=ENV, stdout=subprocess.PIPE, stderr=subprocess.STDOUT, text=True, timeout=timeout)
        return p.returncode, p.stdout
    except subprocess.TimeoutExpired as e:
        return 124, (e.stdout or "") if isinstance(e.stdout, str) else ""


def one(idx, m, base):
    f, i, old, newshort, newline = m
    work = tempfile.mkdtemp(prefix="mrt-%d-" % idx)
    try:
        repo = os.path.join(work, "repo")
        shutil.copytree(base, repo)
        p = os.path.join(repo, f)
        lines = open(p).read().split("\n")
        lines[i] = newline
        open(p, "w").write("\n".join(lines))
        tag = "%s:%d  %s  =>  %s" % (f, i + 1, old, newshort)
        rc, out = run(["go", "build", "./..."], repo, 300)
        if rc != 0:
            return tag, "DOES-NOT-BUILD", ""
        rc, out = run(["go", "test", "-vet=off", "-count=1", "-timeout", "300s", "./rewriter"], repo, 400)
        if rc != 0:
            return tag, "KILLED-BY-BASELINE", ""
        env = dict(ENV, VERIF_REPO=repo, VERIF_REPLAY_DIR=os.path.join(work, "rp"), VERIF_EVIDENCE_OUT=os.path.join(work, "ev"), VERIF_NOSHRINK="1")
        for c in ["C11", "C01", "C04", "C03", "C05", "C06", "C13", "C12", "C07", "C02", "C18"]:
            try:
                pr = subprocess.run([os.path.join(VERIF, "check"), c, "--tier", "quick"], cwd=VERIF, env=env, stdout=subprocess.PIPE, stderr=subprocess.STDOUT, text=True, timeout=2400)
            except subprocess.TimeoutExpired:
                return tag, "CAUGHT", c + " (timeout/hang)"
            if pr.returncode == 1:
                m = re.search(r"VIOLATION property=\S+ replay=\S+\n\s*(.*)", pr.stdout)
                return tag, "CAUGHT", c + "  " + (m.group(1)[:160] if m else "")
            if pr.returncode != 0:
                return tag, "INCONCLUSIVE", c + " " + pr.stdout[-200:].replace("\n", " | ")
        return tag, "SURVIVED", ""
    finally:
        shutil.rmtree(work, ignore_errors=True)


def main():
    limit, jobs, outp = 0, 1, os.path.join(VERIF, "selftest", "mutation_rw.txt")
    a = sys.argv[1:]
    while a:
        if a[0] == "--limit": limit = int(a[1]); a = a[2:]
        elif a[0] == "--jobs": jobs = int(a[1]); a = a[2:]
        elif a[0] == "--out": outp = a[1]; a = a[2:]
        else: a = a[1:]
    ms = mutants()
    if limit:
        step = max(1, len(ms) // limit)
        ms = ms[::step][:limit]
    base = tempfile.mkdtemp(prefix="mrt-base-")
    try:
        files = subprocess.check_output(["git", "-C", REPO, "ls-files"], text=True).split("\n")
        for f in files:
            if f and os.path.exists(os.path.join(REPO, f)):
                d = os.path.join(base, f)
                os.makedirs(os.path.dirname(d), exist_ok=True)
                shutil.copy(os.path.join(REPO, f), d)
        res = []
        with concurrent.futures.ThreadPoolExecutor(jobs) as ex:
            futs = [ex.submit(one, i, m, base) for i, m in enumerate(ms)]
            for fu in futs:
                r = fu.result()
                res.append(r)
                print("%-20s %s   %s" % (r[1], r[0], r[2]), flush=True)
        cnt = {}
        for r in res:
            cnt[r[1]] = cnt.get(r[1], 0) + 1
        with open(outp, "w") as f:
            f.write("# compiler mutation analysis (selftest/mutate_rw.py): %d mutants, %s\n" % (len(res), json.dumps(cnt, sort_keys=True)))
            for r in res:
                f.write("%-20s %s   %s\n" % (r[1], r[0], r[2]))
        print("SUMMARY", json.dumps(cnt, sort_keys=True))
    finally:
        shutil.rmtree(base, ignore_errors=True)


if __name__ == "__main__":
    main()
