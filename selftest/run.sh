#!/bin/bash
# selftest/run.sh <mutant.patch> <property id>...   (sensitivity self-test)
# Copies /repo's working tree to a temp dir, applies the patch, verifies that the mutant builds and
# passes the stable baseline, then runs the named checks against the copy (VERIF_REPO) and expects
# exit 1 (VIOLATION). Prints one line per check: CAUGHT / MISSED / INCONCLUSIVE. Removes the copy.
set -u
patch="$(realpath "$1")"; shift
name=$(basename "$patch" .patch)
work=$(mktemp -d /tmp/selftest-$name-XXXX)
trap 'rm -rf "$work"' EXIT
mkdir -p "$work/repo"
(cd /repo && git ls-files -z | xargs -0 cp --parents -t "$work/repo") || exit 2
cp -r /repo/.git "$work/repo/.git" 2>/dev/null || true
if ! (cd "$work/repo" && git apply --whitespace=nowarn "$(realpath "$patch")"); then echo "$name: PATCH-DOES-NOT-APPLY"; exit 2; fi
export GOPROXY=off GOSUMDB=off GOTOOLCHAIN=local
if [ -z "${SELFTEST_SKIP_BASELINE:-}" ]; then
  if ! (cd "$work/repo" && GOFLAGS= go build ./... && GOFLAGS= go test -vet=off -count=1 -timeout 300s ./rewriter ./seq ./example ./example/lexer ./example/linq ./example/sched1 ./example/sched2 ./example/tree >"$work/baseline.log" 2>&1); then
    echo "$name: MUTANT-FAILS-BASELINE (not a valid mutant)"; tail -5 "$work/baseline.log"; exit 2
  fi
fi
rc_all=0
for c in "$@"; do
  out=$(cd /verif && VERIF_REPO="$work/repo" VERIF_REPLAY_DIR="$work/replays" VERIF_EVIDENCE_OUT="$work/evidence" ./check "$c" --tier quick 2>&1)
  rc=$?
  case $rc in
    1) echo "$name $c: CAUGHT  $(echo "$out" | grep -m1 -A1 '^VIOLATION' | tr '\n' ' ' | cut -c1-260)";;
    0) echo "$name $c: MISSED"; rc_all=1;;
    *) echo "$name $c: INCONCLUSIVE rc=$rc $(echo "$out" | tail -3 | tr '\n' ' ' | cut -c1-300)"; rc_all=1;;
  esac
done
exit $rc_all
