#!/bin/bash
# runs every hand-written mutant against the check(s) named by its file name prefix and writes RESULTS.md
cd "$(dirname "$0")"
out=RESULTS.md.new
echo "# Sensitivity self-test results (selftest/runall.sh)" > $out
echo >> $out
echo "Each mutant is applied to a scratch copy of /repo, must build and pass the stable baseline suite, and the owning check" >> $out
echo "(quick tier, VERIF_REPO=<copy>) must exit 1." >> $out
echo >> $out
echo '```' >> $out
for p in mutants/*.patch; do
  name=$(basename $p .patch)
  id=${name%%-*}
  checks=$id
  case $name in
    C02-delay*) checks="C02 C07";;
    C07-*) checks="C07 C13";;
    C17-*) checks="C17";;
    C01-switch-counts*) checks="C01 C11";;
    C12-*) checks="C12";;
    C14-*) checks="C14";;
  esac
  ./run.sh $p $checks 2>&1 | grep -v "^WARNING" >> $out
done
echo '```' >> $out
mv $out RESULTS.md
