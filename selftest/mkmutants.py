#!/usr/bin/env python3
"""Creates the hand-written sensitivity mutants as patches against /repo's current tree."""
import os, subprocess, shutil, sys
OUT = os.path.join(os.path.dirname(os.path.abspath(__file__)), "mutants")
os.makedirs(OUT, exist_ok=True)

def mk(name, edits):
    work = "/tmp/mkmut"
    shutil.rmtree(work, ignore_errors=True)
    os.makedirs(work)
    files = subprocess.check_output(["git", "-C", "/repo", "ls-files"], text=True).split("\n")
    for f in files:
        if not f: continue
        dst = os.path.join(work, f)
        os.makedirs(os.path.dirname(dst), exist_ok=True)
        if os.path.exists(os.path.join("/repo", f)):
            shutil.copy(os.path.join("/repo", f), dst)
    subprocess.check_call("git init -q && git add -A && git -c user.email=a@b -c user.name=x commit -qm base", shell=True, cwd=work, stdout=subprocess.DEVNULL)
    for (file, old, new) in edits:
        p = os.path.join(work, file)
        s = open(p).read()
        if old not in s:
            print("!! %s: pattern not found in %s" % (name, file)); return
        open(p, "w").write(s.replace(old, new, 1))
    diff = subprocess.check_output(["git", "diff"], cwd=work, text=True)
    open(os.path.join(OUT, name + ".patch"), "w").write(diff)
    print("ok", name)
    shutil.rmtree(work, ignore_errors=True)

# ---- runtime -------------------------------------------------------------------------------
mk("C08-break-loses-return-value", [("seq/seq.go", "\t\t\t\t\tcase kReturn:\n\t\t\t\t\t\tk(kReturn, v)", "\t\t\t\t\tcase kReturn:\n\t\t\t\t\t\tk(kReturn, zero[V]())")])
mk("C09-current-not-cleared", [("seq/seq.go", "\t\td.next = nil\n\t\td.current = zero[V]()\n", "\t\td.next = nil\n")])
mk("C10-string-offsets-of-invalid-bytes", [("seq/iter.go", "\ts.next += w\n", "\tif r == utf8.RuneError && w == 1 {\n\t\tw = 1 + 0*len(s.str)\n\t\ts.val = rune(s.str[s.next])\n\t}\n\ts.next += w\n")])
mk("C10-int-off-by-one-at-n-minus-1", [("seq/iter.go", "\tif i.i+1 >= i.n {", "\tif i.i+1 >= i.n && i.n != 3 {")])
mk("C14-shared-step-state", [("seq/seq.go", "func Start[V any](seq Seq[V]) Iterator[V] {\n\tvar it *generator[V]\n\tit = newGenerator[V](mkNext(\n\t\tfunc() Seq[V] { return seq },\n\t\t&co[V]{},", "var sharedCo = map[any]any{}\n\nfunc coOf[V any](seq Seq[V]) *co[V] {\n\tvar key *Seq[V]\n\tif c, ok := sharedCo[key]; ok {\n\t\treturn c.(*co[V])\n\t}\n\tc := &co[V]{}\n\tsharedCo[key] = c\n\treturn c\n}\n\nfunc Start[V any](seq Seq[V]) Iterator[V] {\n\tvar it *generator[V]\n\tit = newGenerator[V](mkNext(\n\t\tfunc() Seq[V] { return seq },\n\t\tcoOf(seq),")])
mk("C18-recover-in-movenext", [("seq/seq.go", "\ts := d.next(sent) // compute next step\n", "\tdefer func() {\n\t\tif r := recover(); r != nil {\n\t\t\td.next = nil\n\t\t}\n\t}()\n\ts := d.next(sent) // compute next step\n")])
# ---- rewriter ------------------------------------------------------------------------------
mk("C01-switch-counts-as-loop-for-continue", [("rewriter/yield_rewrite.go", "\t\t\tcase token.CONTINUE:\n\t\t\t\tif inLoop() {", "\t\t\tcase token.CONTINUE:\n\t\t\t\tif inLoop() || inSwitch() {")])
mk("C04-range-assign-becomes-define", [("rewriter/range.go", "\t\tkv = X.Assign2(n.Tok,", "\t\tkv = X.Assign2(token.DEFINE,")])
mk("C06-consumer-assign-form-defines", [("rewriter/rewrite.go", "\tassign := X.Assign(fr.Tok, fr.Key, X.Call(current))", "\tassign := X.Assign(token.DEFINE, fr.Key, X.Call(current))")])
mk("C07-eta-reduces-method-values", [("rewriter/optimize.go", "\t\t\t\treturn false // method value", "\t\t\t\tid = f.Sel // method value\n\t\t\t\tfn, _ := ctx.ObjectOf(id).(*types.Func)\n\t\t\t\treturn fn != nil")])
mk("C11-assert-on-else-if-chain-in-case", [("rewriter/yield_block.go", "\tassert(b.kind == kindDelay ||\n\t\tb.kind == kindFor || b.kind == kindIf || b.kind == kindSwitch)", "\tassert(b.kind == kindDelay ||\n\t\tb.kind == kindFor || b.kind == kindIf)")])
mk("C15-symcnt-not-per-file", [("rewriter/range.go", "\tr.symCnt++\n\treturn prefix + strconv.Itoa(r.symCnt)", "\tglobalSymCnt++\n\treturn prefix + strconv.Itoa(globalSymCnt)"), ("rewriter/range.go", "func (r *yieldRewriter) gensym(", "var globalSymCnt int\n\nfunc (r *yieldRewriter) gensym(")])
mk("C16-tmp-dir-left-behind", [("rewriter/compile.go", "\ttmpOutputDir := mustMkDir(filepath.Join(dir, \"_co_tmp\"))\n\tif !runningWithGoTest {", "\ttmpOutputDir := mustMkDir(filepath.Join(dir, \"_co_tmp\"))\n\tif false {")])
mk("C16-header-tag-wrong", [("rewriter/compile.go", "\tcomment        = fmt.Sprintf(fileComment, opt.buildTag)", "\tcomment        = fmt.Sprintf(fileComment, defaultFileSuffix+\"gen\")")])
mk("C16-test-suffix-mapping", [("rewriter/compile.go", "\t\tfilename = replace(filename, testFileSuffix, \"_test.go\")", "\t\tfilename = replace(filename, testFileSuffix, \"_gen_test.go\")")])
mk("C13-free-comments-and-directives", [("rewriter/optimize.go", "\t\to.optimizeImports(f)", "\t\to.optimizeImports(f)\n\t\tf.File.Comments = nil")])
mk("C05-yieldfrom-evaluates-arg-per-step", [("rewriter/rewrite.go", "\tinit := X.Define(iter, fr.X)\n\tcond := X.Call(next)", "\tinit := X.Define(iter, fr.X)\n\tcond := X.Call(next)\n\tif call, ok := fr.X.(*ast.CallExpr); ok && len(call.Args) == 0 {\n\t\tcond = X.Call(X.Select(fr.X, cstMoveNext))\n\t}")])

mk("C17-trampoline-only-for-condless-loops", [("seq/seq.go", "\t\t\t\t\t\tif running {", "\t\t\t\t\t\tif running && cond == nil {")])
mk("C08-continue-skips-post-in-nested-combine", [("seq/seq.go", "\t\t\t\t\tcase kNormal, kContinue:\n\t\t\t\t\t\tif running {", "\t\t\t\t\tcase kNormal, kContinue:\n\t\t\t\t\t\tif t == kContinue && post != nil && cond == nil {\n\t\t\t\t\t\t\tskipPost = true\n\t\t\t\t\t\t}\n\t\t\t\t\t\tif running {")])
mk("C09-result-not-recorded-for-break-signal", [("seq/seq.go", "\t\tfunc(t contType, v V) { it.result = v },", "\t\tfunc(t contType, v V) {\n\t\t\tif t == kReturn || t == kNormal {\n\t\t\t\tit.result = v\n\t\t\t}\n\t\t},")])
mk("C01-if-last-in-loop-body-no-normal", [("rewriter/yield_rewrite.go", "\t\tr.rewriteIfStmt(stmt, children)\n\t\tif isLast {", "\t\tr.rewriteIfStmt(stmt, children)\n\t\tif isLast && children.kind != kindSwitch {")])
mk("C03-post-scope-isolation-only-for-define", [("rewriter/yield_rewrite.go", "\t\tif declaresVar(body.block.List) {", "\t\tif declaresVar(body.block.List) && len(body.block.List) > 2 {")])
