#!/usr/bin/env python3
"""Automated mutation analysis of the runtime (seq/seq.go, seq/iter.go) against the engine-R checks.

  selftest/mutate_rt.py [--limit N] [--jobs J] [--out FILE]

For every single-line syntactic mutant (operator flips, dropped statements, off-by-one, swapped constants) that
  (a) still builds and (b) still passes the project's own runtime-facing tests (./seq ./example ...),
the engine-R test package is run against a scratch copy of the tree with the mutant applied (quick volumes, fail fast).
Output: one line per mutant - KILLED-BY-BASELINE / CAUGHT <first failing test> / SURVIVED - and a summary.
Survivors are either equivalent mutants or blind spots of C08-C10, C14, C17, C18: they are looked at by hand
(results and the verdict per survivor are recorded in selftest/MUTATION_RT.md).
Measurement tool, not a registered check; never touches /repo or /verif/evidence.
"""
import os, re, shutil, subprocess, sys, tempfile, concurrent.futures, json

REPO = os.environ.get("VERIF_REPO", "/repo")
VERIF = os.path.dirname(os.path.dirname(os.path.abspath(__file__)))
ENV = dict(os.environ, GOFLAGS="-mod=mod", GOPROXY="off", GOSUMDB="off", GOTOOLCHAIN="local")
FILES = ["seq/seq.go", "seq/iter.go"]

RULES = [
    (r"==", "!="), (r"!=", "=="), (r"<=", "<"), (r">=", ">"), (r"(?<![<-])<(?![=-])", "<="), (r"(?<![->])>(?!=)", ">="),
    (r"&&", "||"), (r"\|\|", "&&"), (r"\btrue\b", "false"), (r"\bfalse\b", "true"),
    (r"\+\+", "--"), (r"\+= ", "-= "), (r" \+ 1\b", " + 0"), (r" - 1\b", " - 0"), (r"\b-1\b", "0"),
    (r"\bkNormal\b", "kContinue"), (r"\bkBreak\b", "kReturn"), (r"\bkContinue\b", "kNormal"), (r"\bkReturn\b", "kBreak"),
    (r"!(\w)", r"\1"),
]
DROP = re.compile(r"^\s*(\w[\w.\[\]]*(, \w[\w.\[\]]*)* (=|:=) .*|\w[\w.]*\(.*\)|\w[\w.]*(\+\+|--)|return .*|defer .*)$")


def mutants():
    out = []
    for f in FILES:
        lines = open(os.path.join(REPO, f)).read().split("\n")
        for i, l in enumerate(lines):
            code = l.split("//")[0]
            if not code.strip() or code.strip().startswith(("package", "import", "func ", "type ", "}", ")", "case ", "default", "var ", "const ")):
                if not code.strip().startswith(("case ",)):
                    continue
            for (pat, rep) in RULES:
                for m in re.finditer(pat, code):
                    new = code[:m.start()] + m.expand(rep) + code[m.end():] + l[len(code):]
                    if new != l:
                        out.append((f, i, l.strip(), new.strip(), new))
            if DROP.match(code) and not code.strip().startswith("return"):
                indent = l[:len(l) - len(l.lstrip())]
                out.append((f, i, l.strip(), "(statement dropped)", indent + "_ = 0"))
    return out


def run(cmd, cwd, timeout):
    try:
        p = subprocess.run(cmd, cwd=cwd, env=ENV, stdout=subprocess.PIPE, stderr=subprocess.STDOUT, text=True, timeout=timeout)
        return p.returncode, p.stdout
    except subprocess.TimeoutExpired as e:
        return 124, (e.stdout or "") if isinstance(e.stdout, str) else ""


def one(idx, m, base):
    f, i, old, newshort, newline = m
    work = tempfile.mkdtemp(prefix="mrt-%d-" % idx)
    try:
        repo = os.path.join(work, "repo")
        shutil.copytree(base, repo)
        p = os.path.join(repo, f)
        lines = open(p).read().split("\n")
        lines[i] = newline
        open(p, "w").write("\n".join(lines))
        tag = "%s:%d  %s  =>  %s" % (f, i + 1, old, newshort)
        rc, out = run(["go", "build", "./seq"], repo, 300)
        if rc != 0:
            return tag, "DOES-NOT-BUILD", ""
        rc, out = run(["go", "vet", "./seq"], repo, 300)
        rc, out = run(["go", "test", "-vet=off", "-count=1", "-timeout", "120s", "./seq", "./example", "./example/lexer", "./example/linq", "./example/tree", "./example/sched1", "./example/sched2"], repo, 400)
        if rc != 0:
            return tag, "KILLED-BY-BASELINE", ""
        mod = os.path.join(work, "rt.mod")
        src = open(os.path.join(VERIF, "rt", "go.mod")).read().replace("=> /repo", "=> " + repo)
        open(mod, "w").write(src)
        shutil.copy(os.path.join(VERIF, "rt", "go.sum"), os.path.join(work, "rt.sum"))
        env = dict(ENV, VERIF_TIER="quick", VERIF_SEED="20240229", VERIF_EVIDENCE_DIR=os.path.join(work, "ev"), VERIF_REPLAY_DIR=os.path.join(work, "rp"))
        try:
            pr = subprocess.run(["go", "test", "-modfile=" + mod, "-count=1", "-failfast", "-run", "^TestC(08|09|10|17|18|14(Interleavings|SharedSeq|BuiltinIterators))", "-timeout", "900s",
                                 "-rapid.seed=20240229", "-rapid.checks=2000", "-rapid.nofailfile", "."], cwd=os.path.join(VERIF, "rt"), env=env,
                                stdout=subprocess.PIPE, stderr=subprocess.STDOUT, text=True, timeout=1000)
            rc, out = pr.returncode, pr.stdout
        except subprocess.TimeoutExpired as e:
            return tag, "CAUGHT", "timeout/hang"
        if rc == 0:
            return tag, "SURVIVED", ""
        mm = re.search(r"--- FAIL: (\S+)", out)
        vv = re.search(r"VIOLATION property=(\S+)", out)
        if not vv and not mm:
            return tag, "INCONCLUSIVE", out[-300:].replace("\n", " | ")
        return tag, "CAUGHT", "%s %s" % (vv.group(1) if vv else "?", mm.group(1) if mm else "(fatal error / crash)")
    finally:
        shutil.rmtree(work, ignore_errors=True)


def main():
    limit, jobs, outp = 0, 3, os.path.join(VERIF, "selftest", "mutation_rt.txt")
    a = sys.argv[1:]
    while a:
        if a[0] == "--limit": limit = int(a[1]); a = a[2:]
        elif a[0] == "--jobs": jobs = int(a[1]); a = a[2:]
        elif a[0] == "--out": outp = a[1]; a = a[2:]
        else: a = a[1:]
    ms = mutants()
    if limit:
        step = max(1, len(ms) // limit)
        ms = ms[::step][:limit]
    base = tempfile.mkdtemp(prefix="mrt-base-")
    try:
        files = subprocess.check_output(["git", "-C", REPO, "ls-files"], text=True).split("\n")
        for f in files:
            if f and os.path.exists(os.path.join(REPO, f)):
                d = os.path.join(base, f)
                os.makedirs(os.path.dirname(d), exist_ok=True)
                shutil.copy(os.path.join(REPO, f), d)
        res = []
        with concurrent.futures.ThreadPoolExecutor(jobs) as ex:
            futs = [ex.submit(one, i, m, base) for i, m in enumerate(ms)]
            for fu in futs:
                r = fu.result()
                res.append(r)
                print("%-20s %s   %s" % (r[1], r[0], r[2]), flush=True)
        cnt = {}
        for r in res:
            cnt[r[1]] = cnt.get(r[1], 0) + 1
        with open(outp, "w") as f:
            f.write("# runtime mutation analysis (selftest/mutate_rt.py): %d mutants, %s\n" % (len(res), json.dumps(cnt, sort_keys=True)))
            for r in res:
                f.write("%-20s %s   %s\n" % (r[1], r[0], r[2]))
        print("SUMMARY", json.dumps(cnt, sort_keys=True))
    finally:
        shutil.rmtree(base, ignore_errors=True)


if __name__ == "__main__":
    main()
