package main

import (
	"fmt"
	"os"
	"strings"
	"sync"
	"time"
)

// GENCHECK (internal tool, not a property): soundness of my own generators and renderer. Draws many
// programs from every profile and only builds both renderings natively, so generator bugs (type
// errors, scoping mistakes) are found at scale before they can turn a check inconclusive.
func init() {
	checks["GENCHECK"] = &checkT{run: func(rs *runState) {
		profs := []*profile{controlFlowProfile(), effectProfile(), scopingProfile(), rangeProfile(), delegationProfile(), consumerProfile(),
			panicProfile(), bystanderProfile(), c12HostProfile(), interleaveProfile(), pureProfile()}
		n := rs.vol(60, 600)
		var batches [][]*Program
		k := 0
		err := drawAll(rs.seed, n, func(t *rapidT) {
			var b []*Program
			for i := 0; i < 120; i++ {
				k++
				p := genProgram(t, profs[rapidInt(t, 0, len(profs)-1, "prof")], fmt.Sprintf("P%06d", k))
				if p.Profile == "delegation" {
					p.Twin = "yieldfrom-to-range"
				}
				b = append(b, p)
			}
			batches = append(batches, b)
		})
		if err != nil {
			rs.infraProblem(err.Error())
			return
		}
		var wg sync.WaitGroup
		sem := make(chan struct{}, 10)
		var check func(progs []*Program)
		check = func(progs []*Program) {
			defer wg.Done()
			sem <- struct{}{}
			b, err := rs.tools.newBatch(progs, batchOpts{style: importStyles[len(progs)%len(importStyles)], extraS: nil})
			if err != nil {
				<-sem
				rs.infraProblem(err.Error())
				return
			}
			f := b.render()
			if f == nil {
				f = rs.tools.validate(b)
			}
			src := b.srcR
			b.cleanup()
			<-sem
			if f == nil {
				rs.eval(fmt.Sprint(len(progs), progs[0].Name), true, "built")
				return
			}
			if len(progs) > 1 {
				h := len(progs) / 2
				wg.Add(2)
				go check(progs[:h])
				go check(progs[h:])
				return
			}
			rs.infraProblem(fmt.Sprintf("GENERATOR BUG in %s [%s]: %s\n%s", progs[0].Name, progs[0].Profile, lastLines(f.Diag, 12), src))
		}
		for _, b := range batches {
			wg.Add(1)
			go check(b)
		}
		wg.Wait()
		rs.programs = k
		fmt.Printf("GENCHECK: %d programs drawn, %d generator bugs\n", k, len(rs.infra))
	}}
}

func init() {
	checks["ENUMCOUNT"] = &checkT{run: func(rs *runState) {
		for b := 1; b <= 5; b++ {
			fmt.Printf("budget %d: %d programs\n", b, len(enumPrograms(b, knownExclusions())))
		}
	}}
}

// SHAPECHECK (internal tool): renders every hand-written shape and builds both renderings natively (no subject compiler),
// so a typo in a template is found in seconds instead of silently removing its batch from a run.
func init() {
	checks["SHAPECHECK"] = &checkT{run: func(rs *runState) {
		var progs []*Program
		add := func(prefix string, shs []shape) {
			for i, sh := range shs {
				progs = append(progs, mkShapeProgram(prefix+itoa(1000+i), sh))
			}
		}
		add("S", consumerShapes)
		add("Y", bystanderShapes)
		add("Z", closureInGeneratorShapes)
		add("O", optimiserBait)
		add("K", panicShapes)
		add("W", scopingShapes)
		progs = append(progs, rangeShapePrograms()...)
		progs = append(progs, iteratorValuePrograms()...)
		progs = append(progs, delegationPrograms()...)
		for i, inj := range injections {
			name := "J" + itoa(1000+i)
			p := &Program{Name: name, Profile: "c12-fixed-host", Tags: []string{"inject:" + inj.name}}
			body := []*Stmt{evS(1, v("a")), yS(v("a")), {K: "raw", Raw: strings.ReplaceAll(inj.stmt, "$N", name)}, yS(bin("+", v("a"), lit(1)))}
			p.Decls = []*Decl{{Kind: "gen", Name: name + "G", Params: []Param{{"a", "int"}}, Elem: "int", Body: body}}
			if inj.decls != "" {
				p.Decls = append(p.Decls, &Decl{Kind: "raw", Raw: strings.ReplaceAll(inj.decls, "$N", name)})
			}
			progs = append(progs, p)
		}
		bad := 0
		var wg sync.WaitGroup
		var mu sync.Mutex
		sem := make(chan struct{}, 12)
		for _, p := range progs {
			wg.Add(1)
			go func(p *Program) {
				defer wg.Done()
				sem <- struct{}{}
				defer func() { <-sem }()
				b, err := rs.tools.newBatch([]*Program{p}, batchOpts{style: importStyles[0], variants: []string{"r"}})
				if err != nil {
					rs.infraProblem(err.Error())
					return
				}
				defer b.cleanup()
				f := b.render()
				if f == nil {
					f = rs.tools.validate(b)
				}
				if f == nil && len(p.Entries) > 0 {
					// the entries (calls made by the runner) must build too: a runner against the reference rendering only
					if err := b.writeRunner(); err != nil {
						f = &stageFailure{Stage: "build-run", Diag: err.Error()}
					} else if r := runCmd(b.dir, 10*time.Minute, nil, "go", "build", "-o", os.DevNull, "./run"); r.code != 0 {
						f = &stageFailure{Stage: "build-run", Diag: r.out}
					}
				}
				if f != nil {
					mu.Lock()
					bad++
					fmt.Printf("SHAPE BUG %s %v: %s\n", p.Name, p.Tags, lastLines(f.Diag, 8))
					mu.Unlock()
				}
			}(p)
		}
		wg.Wait()
		// the tables (abstract programs): batches of 150, a failing batch is reported with the first diagnostic lines
		var tables []*Program
		tables = append(tables, blockEndTable()...)
		tables = append(tables, loopFormTable()...)
		tables = append(tables, loopRerunTable()...)
		tables = append(tables, rangeTable()...)
		tables = append(tables, scopingTable()...)
		tables = append(tables, yieldOperandTable()...)
		for i := 0; i < len(tables); i += 150 {
			j := i + 150
			if j > len(tables) {
				j = len(tables)
			}
			wg.Add(1)
			go func(part []*Program) {
				defer wg.Done()
				sem <- struct{}{}
				defer func() { <-sem }()
				b, err := rs.tools.newBatch(part, batchOpts{style: importStyles[0]})
				if err != nil {
					rs.infraProblem(err.Error())
					return
				}
				defer b.cleanup()
				f := b.render()
				if f == nil {
					f = rs.tools.validate(b)
				}
				if f != nil {
					mu.Lock()
					bad++
					fmt.Printf("TABLE BUG in batch starting at %s: %s\n", part[0].Name, lastLines(f.Diag, 8))
					mu.Unlock()
				}
			}(tables[i:j])
		}
		wg.Wait()
		fmt.Printf("SHAPECHECK: %d shapes + %d table programs, %d broken\n", len(progs), len(tables), bad)
	}}
}
