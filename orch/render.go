package main

import (
	"fmt"
	"go/format"
	"strconv"
	"strings"
)

// renderer prints a Program as Go source: mode "S" (go-co source) or "R" (reference).
type renderer struct {
	mode   string // "S" or "R"
	co     string // qualifier of the co API in S: "" (dot import), "co." , "gc."
	b      strings.Builder
	indent int
	// context stack: element type of the innermost generator ("" = plain function)
	gens []string
	named []bool
}

func (r *renderer) w(format string, a ...any) {
	r.b.WriteString(strings.Repeat("\t", r.indent))
	fmt.Fprintf(&r.b, format, a...)
	r.b.WriteString("\n")
}

func (r *renderer) inGen() bool { return len(r.gens) > 0 && r.gens[len(r.gens)-1] != "" }
func (r *renderer) elem() string { return r.gens[len(r.gens)-1] }

func (r *renderer) iterType(elem string) string {
	if r.mode == "S" {
		return r.co + "Iter[" + elem + "]"
	}
	return "*ref.It[" + elem + "]"
}

func wrapElem(elem, e string) string {
	switch elem {
	case "int", "":
		return e
	case "string":
		return "tr.Str(" + e + ")"
	case "any":
		return "tr.Any(" + e + ")"
	case "tr.Pt":
		return "tr.Pt{X: " + e + "}"
	case "int64", "uint8", "rune", "float64":
		return elem + "(" + e + ")"
	}
	return e
}

// intOf converts a variable of static type t to an int expression.
func intOf(name, t string) string {
	switch t {
	case "", "int":
		return name
	case "rune", "byte", "int8", "int16", "int32", "int64", "uint", "uint8", "uint16", "uint32", "uint64", "uintptr", "tr.MyInt", "float64":
		return "int(" + name + ")"
	case "string":
		return "tr.I(" + name + ")"
	case "tr.Pt":
		return name + ".X"
	default: // any, bool, error, other
		return "tr.I(" + name + ")"
	}
}

func (r *renderer) expr(e *Expr) string {
	if e == nil {
		return "0"
	}
	switch e.K {
	case "lit":
		if e.N < 0 {
			return "(" + strconv.Itoa(e.N) + ")"
		}
		return strconv.Itoa(e.N)
	case "var":
		return intOf(e.Name, e.T)
	case "bin":
		return "(" + r.expr(e.L) + " " + e.Op + " " + r.expr(e.R) + ")"
	case "neg":
		return "(-" + r.expr(e.L) + ")"
	case "vl":
		return "tr.Vl(" + strconv.Itoa(e.N) + ", " + r.expr(e.L) + ")"
	case "call":
		var as []string
		for _, a := range e.Args {
			as = append(as, r.expr(a))
		}
		return e.Name + "(" + strings.Join(as, ", ") + ")"
	case "cur":
		return intOf(e.Name+".Current()", e.T)
	case "len":
		return "len(" + e.Name + ")"
	case "raw":
		return r.expandRaw(e.Raw)
	case "cmp":
		return "(" + r.expr(e.L) + " " + e.Op + " " + r.expr(e.R) + ")"
	case "and":
		return "(" + r.expr(e.L) + " && " + r.expr(e.R) + ")"
	case "or":
		return "(" + r.expr(e.L) + " || " + r.expr(e.R) + ")"
	case "not":
		return "!" + r.expr(e.L)
	case "true", "false":
		return e.K
	case "vlb":
		return "tr.Vl(" + strconv.Itoa(e.N) + ", " + r.expr(e.L) + ")"
	case "mn":
		return e.Name + ".MoveNext()"
	}
	panic("render: bad expr kind " + e.K)
}

func (r *renderer) iter(it *IterExpr) string {
	switch it.K {
	case "call", "var":
		if it.K == "var" && it.Args == nil {
			return it.Name
		}
		var as []string
		for _, a := range it.Args {
			as = append(as, r.expr(a))
		}
		return it.Name + "(" + strings.Join(as, ", ") + ")"
	case "raw":
		return r.expandRaw(it.Raw)
	}
	panic("render: bad iter kind " + it.K)
}

func (r *renderer) simple(s *Stmt) string {
	// simple statement on one line (for init/post positions)
	switch s.K {
	case "ev":
		var as []string
		as = append(as, strconv.Itoa(s.ID))
		for _, a := range s.Args {
			as = append(as, r.expr(a))
		}
		return "tr.Ev(" + strings.Join(as, ", ") + ")"
	case "decl":
		if s.T == "pair" {
			return s.Name + ", " + s.Name2 + " := " + r.expr(s.E) + ", 7"
		}
		return s.Name + " := " + r.expr(s.E)
	case "assign":
		return s.Name + " " + s.Op + " " + r.expr(s.E)
	case "incdec":
		return s.Name + s.Op
	case "yield":
		if r.mode == "S" {
			return r.co + "Yield" + r.inst(s) + "(" + wrapElem(r.elem(), r.expr(s.E)) + ")"
		}
		return "yield(" + wrapElem(r.elem(), r.expr(s.E)) + ")"
	case "yieldraw":
		if r.mode == "S" {
			return r.co + "Yield(" + r.expandRaw(s.Raw) + ")"
		}
		return "yield(" + r.expandRaw(s.Raw) + ")"
	case "yieldfrom":
		if r.mode == "S" {
			return r.co + "YieldFrom" + r.inst(s) + "(" + r.iter(s.Iter) + ")"
		}
		return "ref.From(yield, " + r.iter(s.Iter) + ")"
	case "callstmt":
		var as []string
		for _, a := range s.Args {
			as = append(as, r.expr(a))
		}
		return s.Name + "(" + strings.Join(as, ", ") + ")"
	case "itnext":
		if s.ID > 0 {
			return "tr.Vl(" + strconv.Itoa(s.ID) + ", " + s.Name + ".MoveNext())"
		}
		return s.Name + ".MoveNext()"
	case "probe":
		return "tr.Probe(" + strconv.Itoa(s.ID) + ")"
	case "rawsimple":
		return r.expandRaw(s.Raw)
	}
	panic("render: not a simple statement: " + s.K)
}

func (r *renderer) stmts(list []*Stmt) {
	for _, s := range list {
		r.stmt(s)
	}
}

func (r *renderer) block(list []*Stmt) {
	r.indent++
	r.stmts(list)
	r.indent--
}

// initSink keeps a variable declared by an if/switch initialiser "used" (first line of the first body)
func (r *renderer) initSink(s *Stmt) {
	if s.Init != nil && s.Init.K == "decl" {
		r.indent++
		r.w("_ = %s", s.Init.Name)
		r.indent--
	}
}

func (r *renderer) ifHead(s *Stmt) string {
	h := "if "
	if s.Init != nil {
		h += r.simple(s.Init) + "; "
	}
	return h + r.expr(s.E) + " {"
}

func (r *renderer) stmt(s *Stmt) {
	switch s.K {
	case "ev", "assign", "incdec", "yield", "yieldraw", "yieldfrom", "callstmt", "probe", "rawsimple":
		r.w("%s", r.simple(s))
	case "itnext":
		if s.ID > 0 {
			r.w("%s", r.simple(s))
		} else {
			r.w("_ = %s", r.simple(s))
		}
	case "decl":
		switch s.T {
		case "var":
			r.w("var %s = %s", s.Name, r.expr(s.E))
		case "var-typed":
			r.w("var %s int = %s", s.Name, r.expr(s.E))
		default:
			r.w("%s", r.simple(s))
		}
		r.w("_ = %s", s.Name)
		if s.T == "pair" {
			r.w("_ = %s", s.Name2)
		}
	case "var":
		r.w("var %s %s", s.Name, s.T)
		r.w("_ = %s", s.Name)
	case "block":
		r.w("{")
		r.block(s.Body)
		r.w("}")
	case "if":
		r.w("%s", r.ifHead(s))
		r.initSink(s)
		r.block(s.Body)
		cur := s
		for cur.ElseIf != nil {
			cur = cur.ElseIf
			r.w("} else %s", r.ifHead(cur))
			r.initSink(cur)
			r.block(cur.Body)
		}
		if cur.HasElse {
			r.w("} else {")
			r.block(cur.Else)
		}
		r.w("}")
	case "switch":
		h := "switch "
		if s.Init != nil {
			h += r.simple(s.Init) + "; "
		}
		if s.E != nil {
			h += r.expr(s.E) + " "
		}
		r.w("%s{", h)
		for ci, c := range s.Cases {
			if c.Default {
				r.w("default:")
			} else {
				var es []string
				for _, e := range c.Exprs {
					es = append(es, r.expr(e))
				}
				r.w("case %s:", strings.Join(es, ", "))
			}
			if ci == 0 {
				r.initSink(s)
			}
			r.block(c.Body)
		}
		r.w("}")
	case "tswitch":
		h := "switch "
		if s.Init != nil {
			h += r.simple(s.Init) + "; "
		}
		if s.Name != "" {
			h += s.Name + " := "
		}
		h += r.expandRaw(s.Raw) + ".(type) "
		r.w("%s{", h)
		for ci, c := range s.Cases {
			if c.Default {
				r.w("default:")
			} else {
				r.w("case %s:", strings.Join(c.Types, ", "))
			}
			if ci == 0 {
				r.initSink(s)
			}
			r.indent++
			if s.Name != "" {
				r.w("_ = %s", s.Name)
			}
			r.stmts(c.Body)
			r.indent--
		}
		r.w("}")
	case "for":
		h := "for "
		if s.Init != nil || s.Post != nil {
			if s.Init != nil {
				h += r.simple(s.Init)
			}
			h += "; "
			if s.E != nil {
				h += r.expr(s.E)
			}
			h += "; "
			if s.Post != nil {
				h += r.simple(s.Post) + " "
			}
		} else if s.E != nil {
			h += r.expr(s.E) + " "
		}
		r.w("%s{", h)
		r.block(s.Body)
		r.w("}")
	case "range":
		x := r.expandRaw(s.Coll.Lit)
		if s.Coll.Vl > 0 {
			x = "tr.Vl(" + strconv.Itoa(s.Coll.Vl) + ", " + x + ")"
		}
		h := "for "
		switch {
		case s.Name == "" && s.Name2 == "":
		case s.Name2 == "":
			h += s.Name + " " + s.Op + " "
		default:
			h += s.Name + ", " + s.Name2 + " " + s.Op + " "
		}
		r.w("%srange %s {", h, x)
		r.indent++
		if s.Op == ":=" {
			for _, n := range []string{s.Name, s.Name2} {
				if n != "" && n != "_" {
					r.w("_ = %s", n)
				}
			}
		}
		r.stmts(s.Body)
		r.indent--
		r.w("}")
	case "crange":
		x := r.iter(s.Iter)
		if r.mode == "R" {
			x += ".All()"
		}
		if s.Name == "" {
			// go-co requires a key variable; "_" is the minimal form
			r.w("for _ %s range %s {", s.Op, x)
		} else {
			r.w("for %s %s range %s {", s.Name, s.Op, x)
		}
		r.indent++
		if s.Op == ":=" && s.Name != "" && s.Name != "_" {
			r.w("_ = %s", s.Name)
		}
		r.stmts(s.Body)
		r.indent--
		r.w("}")
	case "break", "continue":
		r.w("%s", s.K)
	case "return":
		if r.inGen() {
			if r.mode == "S" && !r.named[len(r.named)-1] {
				r.w("return nil")
			} else {
				r.w("return")
			}
		} else if s.E != nil {
			r.w("return %s", r.expr(s.E))
		} else {
			r.w("return")
		}
	case "panic":
		if s.T == "rt" {
			r.w("{")
			r.w("\tvar nilmap map[int]int")
			r.w("\tnilmap[%s] = 1", r.expr(s.E))
			r.w("}")
		} else {
			r.w("panic(%s)", "tr.Str("+r.expr(s.E)+")")
		}
	case "closure":
		r.funcLit(s.Name, s.Fn)
	case "closure-assign":
		// re-assignment of a function variable: Name = func(..) T { return .. }
		r.w("%s = func(%s) %s {", s.Name, params(s.Fn.Params), s.Fn.Result)
		r.w("\treturn %s", r.expr(s.Fn.Ret))
		r.w("}")
	case "itdecl":
		r.w("%s := %s", s.Name, r.iter(s.Iter))
		r.w("_ = %s", s.Name)
	case "itassign":
		r.w("%s = %s", s.Name, r.iter(s.Iter))
	case "raw":
		for _, l := range strings.Split(r.expandRaw(s.Raw), "\n") {
			r.w("%s", l)
		}
	default:
		panic("render: bad stmt kind " + s.K)
	}
}

func params(ps []Param) string {
	var out []string
	for _, p := range ps {
		out = append(out, p.Name+" "+p.Type)
	}
	return strings.Join(out, ", ")
}

func (r *renderer) funcLit(name string, f *FuncLit) {
	if f.Gen {
		r.genOpen(name+" := func("+params(f.Params)+")", f.Elem, false)
		r.stmts(f.Body)
		r.genClose(f.Body, false, true)
		r.w("_ = %s", name)
		return
	}
	res := ""
	if f.Result != "" {
		res = " " + f.Result
	}
	r.w("%s := func(%s)%s {", name, params(f.Params), res)
	r.gens = append(r.gens, "")
	r.named = append(r.named, false)
	r.indent++
	r.stmts(f.Body)
	if f.Ret != nil {
		r.w("return %s", r.expr(f.Ret))
	}
	r.indent--
	r.gens = r.gens[:len(r.gens)-1]
	r.named = r.named[:len(r.named)-1]
	r.w("}")
	r.w("_ = %s", name)
}

// genOpen prints the head of a generator function/literal and enters generator context.
func (r *renderer) genOpen(head string, elem string, namedRet bool) {
	if r.mode == "S" {
		if namedRet {
			r.w("%s (_ %s) {", head, r.iterType(elem))
		} else {
			r.w("%s %s {", head, r.iterType(elem))
		}
		r.indent++
	} else {
		r.w("%s %s {", head, r.iterType(elem))
		r.indent++
		r.w("return ref.New(func(yield func(%s)) {", elem)
		r.indent++
	}
	r.gens = append(r.gens, elem)
	r.named = append(r.named, namedRet)
}

func (r *renderer) genClose(body []*Stmt, namedRet bool, lit bool) {
	if r.mode == "S" {
		if !terminating(body) {
			if namedRet {
				r.w("return")
			} else {
				r.w("return nil")
			}
		}
		r.indent--
		r.w("}")
	} else {
		r.indent--
		r.w("})")
		r.indent--
		r.w("}")
	}
	r.gens = r.gens[:len(r.gens)-1]
	r.named = r.named[:len(r.named)-1]
}

func (r *renderer) decl(d *Decl) {
	switch d.Kind {
	case "raw":
		for _, l := range strings.Split(r.expandRaw(d.Raw), "\n") {
			r.w("%s", l)
		}
	case "gen":
		head := "func "
		if d.Recv != "" {
			head += "(" + d.Recv + ") "
		}
		head += d.Name + d.TParams + "(" + params(d.Params) + ")"
		r.genOpen(head, d.Elem, d.NamedRet)
		r.stmts(d.Body)
		r.genClose(d.Body, d.NamedRet, false)
	case "fn":
		head := "func "
		if d.Recv != "" {
			head += "(" + d.Recv + ") "
		}
		head += d.Name + d.TParams + "(" + params(d.Params) + ")"
		if d.Result != "" {
			head += " " + r.expandRaw(d.Result)
		}
		r.w("%s {", head)
		r.gens = append(r.gens, "")
		r.named = append(r.named, false)
		r.indent++
		r.stmts(d.Body)
		if d.Result != "" && !terminating(d.Body) {
			r.w("return")
		}
		r.indent--
		r.gens = r.gens[:len(r.gens)-1]
		r.named = r.named[:len(r.named)-1]
		r.w("}")
	default:
		panic("render: bad decl kind " + d.Kind)
	}
	r.w("")
}

// argAt parses a brace-delimited argument starting at s[at] == '{'; returns content and the index after '}'.
func argAt(s string, at int) (string, int, bool) {
	if at >= len(s) || s[at] != '{' {
		panic("render: macro argument expected in " + s)
	}
	depth := 0
	for j := at; j < len(s); j++ {
		switch s[j] {
		case '{':
			depth++
		case '}':
			depth--
			if depth == 0 {
				return s[at+1 : j], j + 1, true
			}
		}
	}
	panic("render: unbalanced macro argument in " + s)
}

// expandRaw replaces the macros of raw templates:
//   $YIELD{e}  $YFROM{e}  $ITER{T}  $RANGE{e}  $RET  $CO (API qualifier in S, empty in R)
func (r *renderer) expandRaw(s string) string {
	if !strings.Contains(s, "$") {
		return s
	}
	var out strings.Builder
	for i := 0; i < len(s); {
		if s[i] != '$' {
			out.WriteByte(s[i])
			i++
			continue
		}
		rest := s[i:]
		arg := func(prefix string) (string, int, bool) {
			if !strings.HasPrefix(rest, prefix+"{") {
				return "", 0, false
			}
			depth := 0
			for j := len(prefix); j < len(rest); j++ {
				switch rest[j] {
				case '{':
					depth++
				case '}':
					depth--
					if depth == 0 {
						return rest[len(prefix)+1 : j], j + 1, true
					}
				}
			}
			panic("render: unbalanced macro in " + s)
		}
		if a, n, ok := arg("$YIELD"); ok {
			if r.mode == "S" {
				out.WriteString(r.co + "Yield(" + r.expandRaw(a) + ")")
			} else {
				out.WriteString("yield(" + r.expandRaw(a) + ")")
			}
			i += n
		} else if a, n, ok := arg("$YIELDFN"); ok {
			// the API function used as a VALUE (not supported: the compiler only sees direct calls)
			if r.mode == "S" {
				out.WriteString(r.co + "Yield[" + r.expandRaw(a) + "]")
			} else {
				out.WriteString("yield")
			}
			i += n
		} else if strings.HasPrefix(rest, "$YIELDT{") || strings.HasPrefix(rest, "$YFROMT{") {
			// explicitly instantiated API call: Yield[T](e) / YieldFrom[T](e)
			isFrom := strings.HasPrefix(rest, "$YFROMT{")
			ty, p1, _ := argAt(rest, 7)
			e, p2, _ := argAt(rest, p1)
			switch {
			case r.mode == "S" && isFrom:
				out.WriteString(r.co + "YieldFrom[" + r.expandRaw(ty) + "](" + r.expandRaw(e) + ")")
			case r.mode == "S":
				out.WriteString(r.co + "Yield[" + r.expandRaw(ty) + "](" + r.expandRaw(e) + ")")
			case isFrom:
				out.WriteString("ref.From(yield, " + r.expandRaw(e) + ")")
			default:
				out.WriteString("yield(" + r.expandRaw(e) + ")")
			}
			i += p2
		} else if a, n, ok := arg("$YFROM"); ok {
			if r.mode == "S" {
				out.WriteString(r.co + "YieldFrom(" + r.expandRaw(a) + ")")
			} else {
				out.WriteString("ref.From(yield, " + r.expandRaw(a) + ")")
			}
			i += n
		} else if strings.HasPrefix(rest, "$GEN{") {
			// $GEN{head}{T}{body}: a generator function in a raw declaration
			head, p1, _ := argAt(rest, 4)
			elem, p2, _ := argAt(rest, p1)
			body, p3, _ := argAt(rest, p2)
			elemS := r.expandRaw(elem)
			r.gens = append(r.gens, elemS)
			r.named = append(r.named, false)
			bs := r.expandRaw(body)
			r.gens = r.gens[:len(r.gens)-1]
			r.named = r.named[:len(r.named)-1]
			h := r.expandRaw(head)
			if r.mode == "S" {
				out.WriteString("func " + h + " " + r.iterType(elemS) + " {" + bs + "}")
			} else {
				out.WriteString("func " + h + " " + r.iterType(elemS) + " {\n\treturn ref.New(func(yield func(" + elemS + ")) {" + bs + "})\n}")
			}
			i += p3
		} else if a, n, ok := arg("$SONLY"); ok {
			if r.mode == "S" {
				out.WriteString(r.expandRaw(a))
			}
			i += n
		} else if a, n, ok := arg("$RONLY"); ok {
			if r.mode == "R" {
				out.WriteString(r.expandRaw(a))
			}
			i += n
		} else if a, n, ok := arg("$ITER"); ok {
			out.WriteString(r.iterType(r.expandRaw(a)))
			i += n
		} else if a, n, ok := arg("$RANGE"); ok {
			out.WriteString(r.expandRaw(a))
			if r.mode == "R" {
				out.WriteString(".All()")
			}
			i += n
		} else if strings.HasPrefix(rest, "$RET") {
			if r.mode == "S" && !(len(r.named) > 0 && r.named[len(r.named)-1]) {
				out.WriteString("return nil")
			} else {
				out.WriteString("return")
			}
			i += 4
		} else if strings.HasPrefix(rest, "$CO") {
			if r.mode == "S" {
				out.WriteString(r.co)
			}
			i += 3
		} else {
			out.WriteByte('$')
			i++
		}
	}
	return out.String()
}

// ---------------------------------------------------------------------------------------------
// termination analysis on the abstract AST (mirrors the Go spec's "terminating statement")

func terminating(list []*Stmt) bool {
	if len(list) == 0 {
		return false
	}
	return terminatingStmt(list[len(list)-1])
}

func terminatingStmt(s *Stmt) bool {
	switch s.K {
	case "return":
		return true
	case "panic":
		return s.T != "rt"
	case "block":
		return terminating(s.Body)
	case "if":
		cur := s
		for {
			if !terminating(cur.Body) {
				return false
			}
			if cur.ElseIf != nil {
				cur = cur.ElseIf
				continue
			}
			return cur.HasElse && terminating(cur.Else)
		}
	case "for":
		return s.E == nil && !hasBreak(s.Body)
	case "switch", "tswitch":
		def := false
		for _, c := range s.Cases {
			if c.Default {
				def = true
			}
			if !terminating(c.Body) || hasBreak(c.Body) {
				return false
			}
		}
		return def
	case "raw":
		return strings.HasSuffix(strings.TrimSpace(s.Raw), "//terminating")
	}
	return false
}

// hasBreak: an unlabelled break referring to the enclosing statement
func hasBreak(list []*Stmt) bool {
	for _, s := range list {
		switch s.K {
		case "break":
			return true
		case "block":
			if hasBreak(s.Body) {
				return true
			}
		case "if":
			for cur := s; cur != nil; cur = cur.ElseIf {
				if hasBreak(cur.Body) || hasBreak(cur.Else) {
					return true
				}
			}
		case "raw":
			if strings.Contains(s.Raw, "break") {
				return true
			}
		}
	}
	return false
}

// ---------------------------------------------------------------------------------------------
// files

type importStyle struct {
	Name   string // dot co renamed
	Seq    string // "" none, "seq" default name, "sq" renamed
}

var importStyles = []importStyle{
	{"dot", ""}, {"co", ""}, {"renamed", ""}, {"dot", "seq"}, {"co", "sq"}, {"renamed", "seq"},
}

// inst: explicit instantiation of the API call (Yield[T](e), co.YieldFrom[T](it)) when the statement asks for it
func (r *renderer) inst(s *Stmt) string {
	if s.T == "inst" && r.elem() != "" {
		return "[" + r.elem() + "]"
	}
	return ""
}

const coPath = "github.com/goghcrow/go-co"

// renderFile prints the programs as one Go file of package pkg.
func renderFile(mode, pkg string, st importStyle, progs []*Program, extraImports []string) (string, error) {
	r := &renderer{mode: mode}
	var b strings.Builder
	b.WriteString("package " + pkg + "\n\nimport (\n")
	if mode == "S" {
		switch st.Name {
		case "dot":
			b.WriteString("\t. \"" + coPath + "\"\n")
			r.co = ""
		case "co":
			b.WriteString("\t\"" + coPath + "\"\n")
			r.co = "co."
		case "renamed":
			b.WriteString("\tgc \"" + coPath + "\"\n")
			r.co = "gc."
		}
		switch st.Seq {
		case "seq":
			b.WriteString("\t\"" + coPath + "/seq\"\n")
		case "sq":
			b.WriteString("\tsq \"" + coPath + "/seq\"\n")
		}
	} else {
		b.WriteString("\t\"vt/ref\"\n")
	}
	b.WriteString("\t\"vt/tr\"\n")
	seenIm := map[string]bool{}
	for _, im := range extraImports {
		seenIm[im] = true
		b.WriteString("\t" + im + "\n")
	}
	for _, p := range progs {
		for _, im := range p.Imports {
			if !seenIm[im] {
				seenIm[im] = true
				b.WriteString("\t" + im + "\n")
			}
		}
	}
	b.WriteString(")\n\n")
	if mode == "S" && st.Seq != "" {
		b.WriteString("var _ " + st.Seq + ".Iterator[int] // seq is already imported by the source file\n\n")
	}
	if mode == "R" {
		b.WriteString("var _ = ref.StopAll\n")
	}
	b.WriteString("var _ = tr.Reset\n\n")
	for _, p := range progs {
		r.w("// ---- %s [%s] %s", p.Name, p.Profile, strings.Join(p.Tags, ","))
		for _, d := range p.Decls {
			r.decl(d)
		}
	}
	b.WriteString(r.b.String())
	src, err := format.Source([]byte(b.String()))
	if err != nil {
		return b.String(), fmt.Errorf("renderer produced unparsable %s source: %v", mode, err)
	}
	return string(src), nil
}
