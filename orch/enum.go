package main

import "fmt"

// Small-scope exhaustive enumeration for C01 (thorough tier): every generator body with at most
// `budget` statement nodes over the alphabet {Ev, Yield, if, if-else, 3-clause for, switch, break,
// continue, return}, nesting <= 2. break/continue only where legal; no dead code after a terminal
// statement; at least one yield.
type enumCtx struct {
	inLoop, inBreakable bool
	depth               int
}

// enumLists calls f with every statement list using exactly n nodes (n >= 0).
func enumLists(n int, c enumCtx, f func([]*Stmt)) {
	if n == 0 {
		f(nil)
		return
	}
	// first statement uses k nodes, the rest n-k
	for k := 1; k <= n; k++ {
		enumStmt(k, c, func(s *Stmt) {
			terminal := s.K == "break" || s.K == "continue" || s.K == "return"
			if terminal {
				if n-k == 0 {
					f([]*Stmt{s})
				}
				return // nothing may follow a terminal statement
			}
			enumLists(n-k, c, func(rest []*Stmt) {
				f(append([]*Stmt{s}, rest...))
			})
		})
	}
}

func enumStmt(n int, c enumCtx, f func(*Stmt)) {
	if n == 1 {
		f(&Stmt{K: "ev"})
		f(&Stmt{K: "yield", E: v("a")})
		f(&Stmt{K: "return"})
		if c.inBreakable {
			f(&Stmt{K: "break"})
		}
		if c.inLoop {
			f(&Stmt{K: "continue"})
		}
		return
	}
	if c.depth >= 2 {
		return
	}
	inner := c
	inner.depth++
	body := n - 1
	// if without else
	enumLists(body, inner, func(b []*Stmt) {
		f(&Stmt{K: "if", E: cmp(">", v("a"), lit(1)), Body: cloneStmts(b)})
	})
	// if with else: split body nodes
	for i := 1; i < body; i++ {
		enumLists(i, inner, func(b []*Stmt) {
			enumLists(body-i, inner, func(e []*Stmt) {
				f(&Stmt{K: "if", E: cmp(">", v("a"), lit(1)), Body: cloneStmts(b), HasElse: true, Else: cloneStmts(e)})
			})
		})
	}
	// three-clause loop (2 iterations)
	lc := inner
	lc.inLoop, lc.inBreakable = true, true
	enumLists(body, lc, func(b []*Stmt) {
		f(&Stmt{K: "for", Init: &Stmt{K: "decl", Name: "i", E: lit(0)}, E: cmp("<", v("i"), lit(2)), Post: &Stmt{K: "incdec", Name: "i", Op: "++"}, Body: cloneStmts(b)})
	})
	// switch: case 1, 3: X ; default: Y (Y may be empty)
	sc := inner
	sc.inBreakable = true
	for i := 1; i <= body; i++ {
		enumLists(i, sc, func(b []*Stmt) {
			enumLists(body-i, sc, func(e []*Stmt) {
				f(&Stmt{K: "switch", E: v("a"), Cases: []*Case{{Exprs: []*Expr{lit(1), lit(3)}, Body: cloneStmts(b)}, {Default: true, Body: cloneStmts(e)}}})
			})
		})
	}
}

func cloneStmts(l []*Stmt) []*Stmt {
	out := make([]*Stmt, len(l))
	for i, s := range l {
		c := *s
		c.Body = cloneStmts(s.Body)
		c.Else = cloneStmts(s.Else)
		if s.Cases != nil {
			c.Cases = nil
			for _, cs := range s.Cases {
				cc := *cs
				cc.Body = cloneStmts(cs.Body)
				c.Cases = append(c.Cases, &cc)
			}
		}
		out[i] = &c
	}
	return out
}

// enumPrograms: all bodies with 1..budget nodes that contain a yield and do not hit a known finding.
func enumPrograms(budget int, excl map[string]bool) []*Program {
	var out []*Program
	n := 0
	for k := 1; k <= budget; k++ {
		enumLists(k, enumCtx{}, func(body []*Stmt) {
			b := cloneStmts(body)
			if !containsYieldStmt(b) {
				return
			}
			id := 0
			walkStmts(b, func(s *Stmt) {
				if s.K == "ev" {
					id++
					s.ID = id
					s.Args = []*Expr{v("a")}
				}
				if s.K == "yield" {
					id++
					s.E = bin("+", bin("*", v("a"), lit(100)), lit(id))
				}
			})
			if excl["break-after-yield-in-switch"] {
				ev := 900
				if dropSwitchBreaks(b, &ev) > 0 {
					return // the shape with the break replaced is enumerated anyway
				}
			}
			n++
			name := fmt.Sprintf("E%06d", n)
			p := &Program{Name: name, Profile: "exhaustive-small-bodies", Tags: []string{fmt.Sprintf("nodes:%d", k)}}
			p.Decls = []*Decl{{Kind: "gen", Name: name + "G", Params: []Param{{"a", "int"}}, Elem: "int", Body: b}}
			p.Entries = []*Entry{{Name: name + "G", Kind: "drive", Call: "$P" + name + "G($0)", Elem: "int", Inputs: allInputs(1, 0, 3), Scripts: []string{"std"}}}
			out = append(out, p)
		})
	}
	return out
}
