package main

import (
	"encoding/json"
	"fmt"
	"os"
	"strings"
	"sync"
	"time"
)

// Hierarchical reducer on the abstract AST (rapid's bit-level shrinker is not used in engine T: every
// attempt costs a multi-second pipeline run). One round = all one-step reductions of the current
// program, run through the pipeline in parallel; the smallest candidate that still fails in the same
// way becomes the current program; iterated to a fixpoint under a time budget.

func cloneProgram(p *Program) *Program {
	b, _ := json.Marshal(p)
	var c Program
	_ = json.Unmarshal(b, &c)
	// Entry.NoSrc etc. are not serialised; fine
	return &c
}

func nameUses(d *Decl, name string) int {
	b, _ := json.Marshal(d)
	return strings.Count(string(b), `"name":"`+name+`"`) + strings.Count(string(b), `"name2":"`+name+`"`) + rawUses(string(b), name)
}

func rawUses(js, name string) int {
	// occurrences inside raw text (tr.Any(x1) etc.): word-ish match
	n := 0
	for _, sep := range []string{"(", " ", ",", "-", "+", "*", "%"} {
		for _, end := range []string{")", " ", ",", ".", "+", "-", "*", "%", "]", "\\"} {
			n += strings.Count(js, sep+name+end)
		}
	}
	return n
}

func declares(s *Stmt) []string {
	switch s.K {
	case "decl", "var", "closure", "itdecl":
		return []string{s.Name}
	}
	return nil
}

func containsBranch(list []*Stmt, kinds ...string) bool {
	found := false
	var walk func(l []*Stmt, depthLoop bool)
	walk = func(l []*Stmt, _ bool) {
		for _, s := range l {
			for _, k := range kinds {
				if s.K == k {
					found = true
				}
			}
			if s.K == "raw" && (strings.Contains(s.Raw, "break") || strings.Contains(s.Raw, "continue")) {
				found = true
			}
			if s.K == "closure" {
				continue
			}
			for _, ch := range s.children() {
				walk(ch, false)
			}
		}
	}
	walk(list, false)
	return found
}

// listRefs enumerates pointers to every statement list of a declaration.
func listRefs(d *Decl) []*[]*Stmt {
	var out []*[]*Stmt
	var walk func(l *[]*Stmt)
	walk = func(l *[]*Stmt) {
		out = append(out, l)
		for _, s := range *l {
			if s.Body != nil {
				walk(&s.Body)
			}
			if s.Else != nil {
				walk(&s.Else)
			}
			for _, c := range s.Cases {
				walk(&c.Body)
			}
			if s.Fn != nil {
				walk(&s.Fn.Body)
			}
			for e := s.ElseIf; e != nil; e = e.ElseIf {
				walk(&e.Body)
				if e.Else != nil {
					walk(&e.Else)
				}
			}
		}
	}
	walk(&d.Body)
	return out
}

// exprRefs enumerates pointers to every expression slot of a declaration.
func exprRefs(d *Decl) []**Expr {
	var out []**Expr
	var we func(e **Expr)
	we = func(e **Expr) {
		if *e == nil {
			return
		}
		out = append(out, e)
		we(&(*e).L)
		we(&(*e).R)
		for i := range (*e).Args {
			we(&(*e).Args[i])
		}
	}
	var ws func(s *Stmt)
	ws = func(s *Stmt) {
		if s == nil {
			return
		}
		we(&s.E)
		for i := range s.Args {
			we(&s.Args[i])
		}
		if s.Iter != nil {
			for i := range s.Iter.Args {
				we(&s.Iter.Args[i])
			}
		}
		ws(s.Init)
		ws(s.Post)
		ws(s.ElseIf)
		for _, c := range s.Cases {
			// case expressions stay (constants must remain distinct)
			for _, b := range c.Body {
				ws(b)
			}
		}
		for _, b := range s.Body {
			ws(b)
		}
		for _, b := range s.Else {
			ws(b)
		}
		if s.Fn != nil {
			for _, b := range s.Fn.Body {
				ws(b)
			}
			we(&s.Fn.Ret)
		}
	}
	for _, s := range d.Body {
		ws(s)
	}
	return out
}

// validProgram: every generator function/literal still contains a yield of its own (a function
// without one is not a generator for go-co and returns a nil iterator: outside the domain).
func validProgram(p *Program) bool {
	ownYield := func(body []*Stmt) bool {
		found := false
		var walk func(l []*Stmt)
		walk = func(l []*Stmt) {
			for _, s := range l {
				switch s.K {
				case "yield", "yieldraw", "yieldfrom":
					found = true
				case "raw", "rawsimple":
					if strings.Contains(s.Raw, "$YIELD") || strings.Contains(s.Raw, "$YFROM") {
						found = true
					}
				case "closure":
					continue
				}
				if s.Init != nil {
					walk([]*Stmt{s.Init})
				}
				if s.Post != nil {
					walk([]*Stmt{s.Post})
				}
				for _, ch := range s.children() {
					if s.K != "closure" {
						walk(ch)
					}
				}
			}
		}
		walk(body)
		return found
	}
	ok := true
	for _, d := range p.Decls {
		if d.Kind == "gen" && !ownYield(d.Body) {
			ok = false
		}
		walkStmts(d.Body, func(s *Stmt) {
			if s.K == "closure" && s.Fn != nil && s.Fn.Gen && !ownYield(s.Fn.Body) {
				ok = false
			}
		})
	}
	return ok
}

// candidates returns all one-step reductions of p (each a fresh deep copy).
func candidates(p *Program) []*Program {
	// normalise through the JSON round trip first: empty statement lists become nil, so the list/expression
	// indices computed on p agree with those of every clone
	p = cloneProgram(p)
	var out []*Program
	add := func(mut func(c *Program) bool) {
		c := cloneProgram(p)
		if mut(c) && validProgram(c) {
			out = append(out, c)
		}
	}
	// 1. drop declarations that are not entries' targets (consumers, helper generators)
	for di := range p.Decls {
		di := di
		add(func(c *Program) bool {
			name := c.Decls[di].Name
			if name == "" {
				return false
			}
			// referenced by another declaration?
			for dj, d := range c.Decls {
				if dj != di {
					b, _ := json.Marshal(d)
					if strings.Contains(string(b), name) {
						return false
					}
				}
			}
			if len(c.Entries) <= 1 {
				for _, e := range c.Entries {
					if e.Name == name {
						return false
					}
				}
			}
			var es []*Entry
			for _, e := range c.Entries {
				if e.Name != name && !strings.Contains(e.Call, name) {
					es = append(es, e)
				}
			}
			if len(es) == 0 {
				return false
			}
			c.Entries = es
			c.Decls = append(c.Decls[:di], c.Decls[di+1:]...)
			return true
		})
	}
	for di, d := range p.Decls {
		di := di
		if d.Kind == "raw" {
			continue
		}
		nl := len(listRefs(d))
		for li := 0; li < nl; li++ {
			li := li
			n := len(*listRefs(d)[li])
			for si := 0; si < n; si++ {
				si := si
				// 2. delete a statement
				add(func(c *Program) bool {
					cd := c.Decls[di]
					l := listRefs(cd)[li]
					s := (*l)[si]
					for _, nm := range declares(s) {
						if nameUses(cd, nm) > 1 {
							return false
						}
					}
					*l = append(append([]*Stmt{}, (*l)[:si]...), (*l)[si+1:]...)
					return true
				})
				// 3. replace a compound statement by one of its parts (as a block)
				s := (*listRefs(d)[li])[si]
				parts := 0
				switch s.K {
				case "if":
					parts = 3
				case "for", "range", "crange", "block":
					parts = 1
				case "switch", "tswitch":
					parts = len(s.Cases)
				}
				for pi := 0; pi < parts; pi++ {
					pi := pi
					add(func(c *Program) bool {
						cd := c.Decls[di]
						l := listRefs(cd)[li]
						s := (*l)[si]
						var body []*Stmt
						switch s.K {
						case "if":
							switch pi {
							case 0:
								body = s.Body
							case 1:
								if !s.HasElse {
									return false
								}
								body = s.Else
							case 2:
								if s.ElseIf == nil {
									return false
								}
								body = []*Stmt{s.ElseIf}
							}
							if s.Init != nil && s.Init.K == "decl" {
								body = append([]*Stmt{s.Init}, body...)
							}
						case "for", "range", "crange":
							if containsBranch(s.Body, "break", "continue") {
								return false
							}
							body = s.Body
							if s.K == "for" && s.Init != nil && s.Init.K == "decl" {
								body = append([]*Stmt{s.Init}, body...)
							}
							if s.K != "for" {
								return false // range variables would become undeclared
							}
						case "block":
							for _, b := range s.Body {
								if len(declares(b)) > 0 {
									return false
								}
							}
							*l = append(append(append([]*Stmt{}, (*l)[:si]...), s.Body...), (*l)[si+1:]...)
							return true
						case "switch", "tswitch":
							if containsBranch(s.Cases[pi].Body, "break") || s.K == "tswitch" && s.Name != "" {
								return false
							}
							body = s.Cases[pi].Body
							if s.Init != nil && s.Init.K == "decl" {
								body = append([]*Stmt{s.Init}, body...)
							}
						}
						(*l)[si] = &Stmt{K: "block", Body: body}
						return true
					})
				}
				// 4. drop optional parts
				add(func(c *Program) bool {
					s := (*listRefs(c.Decls[di])[li])[si]
					if s.K == "if" && (s.HasElse || s.ElseIf != nil) {
						s.HasElse, s.Else, s.ElseIf = false, nil, nil
						return true
					}
					return false
				})
				add(func(c *Program) bool {
					cd := c.Decls[di]
					s := (*listRefs(cd)[li])[si]
					if (s.K == "if" || s.K == "switch" || s.K == "tswitch") && s.Init != nil {
						if s.Init.K == "decl" && nameUses(cd, s.Init.Name) > 1 {
							return false
						}
						s.Init = nil
						return true
					}
					return false
				})
				if s.K == "switch" || s.K == "tswitch" {
					for ci := range s.Cases {
						ci := ci
						add(func(c *Program) bool {
							s := (*listRefs(c.Decls[di])[li])[si]
							if len(s.Cases) <= 1 {
								return false
							}
							s.Cases = append(s.Cases[:ci], s.Cases[ci+1:]...)
							return true
						})
					}
				}
				// 5. yields of a complex value -> constant
			}
		}
		// 6. expressions -> literal / child
		ne := len(exprRefs(d))
		for ei := 0; ei < ne; ei++ {
			ei := ei
			e := *exprRefs(d)[ei]
			if e.K == "lit" || e.K == "true" || e.K == "false" {
				continue
			}
			boolish := e.K == "cmp" || e.K == "and" || e.K == "or" || e.K == "not" || e.K == "vlb"
			if boolish {
				for _, k := range []string{"true", "false"} {
					k := k
					add(func(c *Program) bool { *exprRefs(c.Decls[di])[ei] = &Expr{K: k}; return true })
				}
				if e.K == "and" || e.K == "or" {
					add(func(c *Program) bool { r := exprRefs(c.Decls[di])[ei]; *r = (*r).L; return true })
					add(func(c *Program) bool { r := exprRefs(c.Decls[di])[ei]; *r = (*r).R; return true })
				}
				if e.K == "vlb" {
					add(func(c *Program) bool { r := exprRefs(c.Decls[di])[ei]; *r = (*r).L; return true })
				}
				continue
			}
			if e.K == "mn" {
				continue
			}
			for _, v := range []int{0, 1} {
				v := v
				add(func(c *Program) bool { *exprRefs(c.Decls[di])[ei] = lit(v); return true })
			}
			if e.L != nil && (e.K == "bin" || e.K == "vl" || e.K == "neg") {
				add(func(c *Program) bool { r := exprRefs(c.Decls[di])[ei]; *r = (*r).L; return true })
			}
			if e.R != nil && e.K == "bin" && e.Op != "%" {
				add(func(c *Program) bool { r := exprRefs(c.Decls[di])[ei]; *r = (*r).R; return true })
			}
		}
	}
	return out
}

// failsLike reports whether running p reproduces a failure of the same kind as v.
func (rs *runState) failsLike(p *Program, v *violationT) (bool, *violationT) {
	opts := batchOpts{needU: v.NeedU, style: v.Style, timeout: 90 * time.Second}
	if ex, ok := v.Extra["variants"].([]string); ok {
		opts.variants = ex
	}
	res, b := rs.tools.runBatchValidated([]*Program{p}, opts)
	if b != nil {
		defer b.cleanup()
	}
	if res.fail != nil && (res.fail.Stage == "invalid" || res.fail.Stage == "infra" || res.fail.Stage == "render" || res.fail.Timeout) {
		return false, nil
	}
	nv := *v
	nv.Program = p
	if b != nil {
		nv.SourceS, nv.SourceR, nv.Output = b.srcS, b.srcR, res.outO
	}
	switch v.Kind {
	case "compile", "build":
		if res.fail == nil || strings.SplitN(res.fail.Stage, "-", 2)[0] != v.Kind {
			return false, nil
		}
		sig := res.fail.Stage + ":" + normDiag(res.fail.Diag)
		if v.Kind == "compile" && sig != v.Signature {
			return false, nil // a different panic message is a different defect
		}
		if v.Kind == "build" && buildClass(sig) != buildClass(v.Signature) {
			return false, nil
		}
		nv.Stage = res.fail
		nv.Signature = sig
		nv.What = fmt.Sprintf("%s: %s failed: %s", p.Name, res.fail.Stage, normDiag(res.fail.Diag))
		return true, &nv
	case "accepted":
		if res.fail == nil {
			return true, &nv
		}
		return false, nil
	case "hang":
		if res.fail == nil || !res.fail.Hang {
			return false, nil
		}
		nv.Stage = res.fail
		return true, &nv
	case "crash":
		if res.fail == nil || res.fail.Stage != "run" {
			return false, nil
		}
		nv.Stage = res.fail
		return true, &nv
	case "trace", "uo-trace", "direct":
		if res.fail != nil {
			return false, nil
		}
		for i := range res.records {
			r := &res.records[i]
			bad := !r.Equal
			if v.Kind == "direct" {
				bad = len(r.Direct) > 0
			}
			if v.Kind == "uo-trace" {
				_, bad = r.Diff["u"]
			}
			if bad {
				nv.Entry, nv.Input, nv.Script, nv.Traces = r.Entry, r.Input, r.Script, r.Traces
				nv.What = fmt.Sprintf("%s %s input %v script %s: %v %v", r.Prog, r.Entry, r.Input, r.Script, r.Diff, r.Direct)
				return true, &nv
			}
		}
		return false, nil
	}
	return false, nil
}

// buildClass reduces a build diagnostic to its class (identifier names removed).
func buildClass(sig string) string {
	for _, k := range []string{"declared and not used", "missing return", "no new variables", "undefined", "not enough return values", "cannot use", "imported and not used", "mismatched types"} {
		if strings.Contains(sig, k) {
			return k
		}
	}
	return sig
}

// shrink never loses a violation: if the reducer itself fails, the unshrunk violation is reported.
func (rs *runState) shrink(v *violationT) (out *violationT) {
	defer func() {
		if r := recover(); r != nil {
			fmt.Println("note: reducer failed (", r, "); reporting the unshrunk case")
			out = v
		}
	}()
	return rs.shrink1(v)
}

func (rs *runState) shrink1(v *violationT) *violationT {
	// per-violation budget, inside an overall budget for the run
	per, total := 90*time.Second, 4*time.Minute
	if rs.tier == "thorough" {
		per, total = 5*time.Minute, 20*time.Minute
	}
	if rs.shrinkStart.IsZero() {
		rs.shrinkStart = time.Now()
	}
	deadline := time.Now().Add(per)
	if end := rs.shrinkStart.Add(total); end.Before(deadline) {
		deadline = end
	}
	cur := v
	// first: keep only the failing entry and input
	if cur.Entry != "" {
		c := cloneProgram(cur.Program)
		var es []*Entry
		for _, e := range c.Entries {
			if e.Name == cur.Entry {
				if cur.Input != nil {
					e.Inputs = [][]int{cur.Input}
				}
				if cur.Script != "" {
					e.Scripts = []string{cur.Script}
				}
				es = append(es, e)
			}
		}
		if len(es) > 0 {
			c.Entries = es
			if ok, nv := rs.failsLike(c, cur); ok {
				cur = nv
			}
		}
	}
	rounds := 0
	for time.Now().Before(deadline) {
		cands := candidates(cur.Program)
		if len(cands) == 0 {
			break
		}
		rounds++
		type result struct {
			idx int
			v   *violationT
		}
		results := make([]*violationT, len(cands))
		var wg sync.WaitGroup
		sem := make(chan struct{}, 12)
		for i, c := range cands {
			wg.Add(1)
			go func(i int, c *Program) {
				defer wg.Done()
				sem <- struct{}{}
				defer func() { <-sem }()
				if time.Now().After(deadline) {
					return
				}
				if ok, nv := rs.failsLike(c, cur); ok {
					results[i] = nv
				}
			}(i, c)
		}
		wg.Wait()
		var best *violationT
		for _, r := range results {
			if r != nil && (best == nil || progSize(r.Program) < progSize(best.Program)) {
				best = r
			}
		}
		if best == nil || progSize(best.Program) >= progSize(cur.Program) && best != nil && exprWeight(best.Program) >= exprWeight(cur.Program) {
			break
		}
		cur = best
	}
	if cur.Extra == nil {
		cur.Extra = map[string]any{}
	}
	cur.Extra["shrink_rounds"] = rounds
	return cur
}

func exprWeight(p *Program) int {
	n := 0
	for _, d := range p.Decls {
		for _, e := range exprRefs(d) {
			_ = e
			n++
		}
	}
	return n
}

// runBatchValidated first checks that both renderings are valid Go (the reference package and the
// source package build natively); only then is the subject compiler run.
func (t *tools) runBatchValidated(progs []*Program, opts batchOpts) (*batchResult, *batch) {
	return t.runBatchX(progs, opts, true)
}

// replayFile re-runs the program stored in a replay file through the pipeline, bypassing rapid.
func (rs *runState) replayFile(path string) int {
	b, err := os.ReadFile(path)
	if err != nil {
		fmt.Println("INFRA:", err)
		return 2
	}
	var v violationT
	if err := json.Unmarshal(b, &v); err != nil {
		fmt.Println("INFRA:", err)
		return 2
	}
	if v.Program == nil {
		fmt.Println("INFRA: replay file has no program (layout/configuration replays are re-run by the check itself)")
		return 2
	}
	ok, nv := rs.failsLike(v.Program, &v)
	if ok {
		fmt.Printf("VIOLATION property=%s replay=%s\n  %s\n", v.Property, path, firstLine(nv.What))
		return 1
	}
	fmt.Println("replay: the stored program no longer fails")
	return 0
}
