package main

import (
	"strings"
	"os"
)

func (rs *runState) vol(quick, thorough int) int {
	if rs.tier == "thorough" {
		return thorough
	}
	return quick
}

// knownExclusions: shapes of recorded known findings (known_findings.json) that the generators leave
// out by construction so the search continues behind them. Set VERIF_INCLUDE_KNOWN=1 to generate them.
func knownExclusions() map[string]bool {
	if os.Getenv("VERIF_INCLUDE_KNOWN") != "" {
		return map[string]bool{}
	}
	return map[string]bool{
		"continue-with-yielding-post": true,
		"break-after-yield-in-switch": true,
		"array-range-live-not-copied": true,
		"cogen-external-test-eta-not-idempotent": true,
		"local-shadows-element-type":             true,
	}
}

// ---- profiles -----------------------------------------------------------------------------------

func controlFlowProfile() *profile {
	return &profile{
		name: "control-flow", maxDepth: 4, maxStmts: 14,
		w: map[string]int{
			"ev": 10, "decl": 5, "assign": 4, "incdec": 2, "yield": 14, "block": 3, "if": 10, "switch": 8, "tswitch": 3,
			"for": 9, "break": 5, "continue": 4, "return": 3, "closure": 2, "callstmt": 2, "genlit": 1,
		},
		elems: []string{"int", "int", "string", "any", "tr.Pt"}, nGens: [2]int{1, 1},
		exclude: knownExclusions(),
		scripts: []string{"std"}, fuel: 300,
	}
}

func effectProfile() *profile {
	p := controlFlowProfile()
	p.name = "effects"
	p.globals = true
	p.elems = []string{"int", "int", "string", "any", "tr.Pt"}
	p.vlProb = 35
	p.w["ev"] = 16
	p.w["assign"] = 6
	p.w["closure"] = 4
	p.w["callstmt"] = 5
	p.scripts = []string{"std", "cur"}
	return p
}

func scopingProfile() *profile {
	return &profile{
		name: "scoping", maxDepth: 4, maxStmts: 16,
		w: map[string]int{
			"ev": 8, "decl": 14, "assign": 8, "incdec": 4, "yield": 14, "block": 8, "if": 8, "switch": 7, "tswitch": 6,
			"for": 7, "range": 5, "break": 2, "continue": 2, "return": 1, "closure": 9, "callstmt": 8, "genlit": 2,
		},
		elems: []string{"int", "int", "any", "tr.Pt"}, nGens: [2]int{1, 1}, globals: true,
		exclude: knownExclusions(), scripts: []string{"std"}, fuel: 300, vlProb: 5,
	}
}

func rangeProfile() *profile {
	return &profile{
		name: "ranges", maxDepth: 4, maxStmts: 14,
		w: map[string]int{
			"ev": 8, "decl": 4, "assign": 3, "yield": 12, "block": 2, "if": 6, "switch": 3,
			"for": 3, "range": 22, "break": 5, "continue": 5, "return": 1, "closure": 6, "callstmt": 5,
		},
		elems: []string{"int", "int", "any"}, nGens: [2]int{1, 1},
		exclude: knownExclusions(), scripts: []string{"std"}, fuel: 300, vlProb: 5,
	}
}

func delegationProfile() *profile {
	return &profile{
		name: "delegation", maxDepth: 3, maxStmts: 10,
		w: map[string]int{
			"ev": 8, "decl": 3, "assign": 2, "yield": 10, "yieldfrom": 16, "itdecl": 7, "crange": 6, "pullloop": 6, "itassign": 4, "block": 2, "if": 6, "switch": 4,
			"for": 6, "break": 2, "continue": 2, "return": 2, "genlit": 4,
		},
		elems: []string{"int", "int", "string"}, nGens: [2]int{2, 5},
		exclude: knownExclusions(), scripts: []string{"std", "short"}, fuel: 400, vlProb: 15,
	}
}

func consumerProfile() *profile {
	return &profile{
		name: "consumers", maxDepth: 3, maxStmts: 10,
		w: map[string]int{
			"ev": 10, "decl": 3, "assign": 5, "yield": 12, "if": 6, "switch": 3, "for": 5, "crange": 6, "itdecl": 5, "pullloop": 5, "itassign": 3,
			"break": 6, "continue": 5, "return": 4,
		},
		elems: []string{"int", "int", "string", "any"}, nGens: [2]int{1, 2}, consumers: 3,
		exclude: knownExclusions(), scripts: []string{"std"}, fuel: 300,
	}
}

func panicProfile() *profile {
	p := controlFlowProfile()
	p.name = "panics"
	p.panics = true
	p.w["panic"] = 5
	p.w["yieldfrom"] = 5
	p.w["closure"] = 4
	p.w["callstmt"] = 4
	p.nGens = [2]int{1, 3}
	return p
}

func hasLoopTag(p *Program) bool {
	return p.hasTag("for3") || p.hasTag("for-cond") || p.hasTag("for-infinite") || p.hasTag("range")
}

// ---- checks -------------------------------------------------------------------------------------

func init() {
	checks["C01"] = &checkT{run: func(rs *runState) {
		rs.rule("generator bodies from the supported control-flow grammar (nesting <= 4, <= 14 statements) x all argument vectors in {0..3}^k x " +
			"consumer cap 40; oracle: interleaved trace of the compiled generator == trace of the iter.Pull reference; " +
			"non-trivial = the executed trace has >= 2 yields and the program has a loop, else-if chain, yielding init/post " +
			"or a break/continue/return after a yield; distinct by hash(program)+input+script. The block-end table (every last-statement " +
			"kind at the end of every block kind, with/without following statements) is enumerated completely as well.")
		table := blockEndTable()
		rerun := loopRerunTable()
		rs.exh = append(rs.exh, "loop-rerun table: "+itoa(len(rerun))+" programs (outer loop form x init-less inner loop form x inner body x statements after the inner loop: the optimiser makes the inner loop ONE value that is run once per outer iteration) x inputs 0..1")
		forms := loopFormTable()
		rs.exh = append(rs.exh, "loop-form table: "+itoa(len(forms))+" programs (init/condition/post present or absent x yield in body/post/init x exit by condition/break/return)")
		small := enumPrograms(rs.vol(4, 5), knownExclusions())
		rs.exh = append(rs.exh, "all "+itoa(len(small))+" generator bodies with <= "+itoa(rs.vol(4, 5))+" statement nodes over {Ev, Yield, if, if-else, 3-clause for, switch, break, continue, return} (nesting <= 2, no dead code, >= 1 yield, known-finding shapes removed) x inputs 0..3")
		spec := &diffSpec{
			profiles: []*profile{controlFlowProfile()}, batchSize: 40, batches: rs.vol(14, 1000),
			fixed: append(append(append(table, small...), rerun...), forms...),
			nontrivial: func(p *Program, r *Record) bool {
				return r.Yields >= 2 && (hasLoopTag(p) || p.Profile == "loop-rerun-table" || p.Profile == "loop-form-table" || p.hasTag("break-after-yield") ||
					p.hasTag("continue-after-yield") || p.hasTag("return-after-yield") || p.hasTag("yielding-post") || p.hasTag("else-if") || p.Profile == "block-end-table" || p.Profile == "exhaustive-small-bodies")
			},
		}
		rs.exh = append(rs.exh, "block-end table: "+itoa(len(table))+" programs (13 block kinds x 42 last-statement kinds x {nothing, event, yield after the block; yield, event+return inside the block after the statement}, illegal combinations removed) x inputs 0..3")
		rs.runDiff(spec)
	}}

	checks["C02"] = &checkT{run: func(rs *runState) {
		rs.rule("effect-heavy programs (logged expression evaluations tr.Vl in yielded values, conditions, posts; events before/between/after yields) x " +
			"consumer scripts varying Current calls (0-2 per step), 2 advances after exhaustion, every early stop as a trace prefix; oracle: interleaved trace equality " +
			"plus reference-free predicates (no generator-side event before the first advance / after the first false advance); " +
			"non-trivial = some advance runs >= 2 generator-side events and the trace has >= 2 yields; distinct by hash(program)+input+script")
		spec := &diffSpec{
			profiles: []*profile{effectProfile()}, batchSize: 40, batches: rs.vol(25, 500),
			nontrivial: func(p *Program, r *Record) bool { return r.MaxBetween >= 2 && r.Yields >= 2 },
		}
		for i, sh := range optimiserBait {
			spec.fixed = append(spec.fixed, mkShapeProgram("O"+itoa(100+i), sh))
		}
		spec.fixed = append(spec.fixed, loopRerunTable()...)
		ops := yieldOperandTable()
		spec.fixed = append(spec.fixed, ops...)
		rs.exh = append(rs.exh, "yield operand table: "+itoa(len(ops))+" programs (operand kind x position of the yield as first statement of a delayed block; the state the operand reads changes between evaluations)")
		rs.runDiff(spec)
	}}

	checks["C03"] = &checkT{run: func(rs *runState) {
		rs.rule("scoping programs: every block may declare/shadow visible names; shadowing := initialisers of if/for/switch/type-switch, range key/value, " +
			"type-switch bindings; closures created before a yield and called after it; oracle: trace equality with native Go scoping (reference) and the output must build; " +
			"non-trivial = the program shadows a name or captures locals in a closure, and the trace has >= 1 yield followed by generator-side events; distinct by hash(program)+input")
		table := scopingTable()
		for i, sh := range consumerShapes {
			// range variables of consumer loops written inside (or beside) generators, redeclared in the loop body
			if strings.Contains(sh.name, "redeclared") {
				q := mkShapeProgram("S"+itoa(1000+i), sh)
				q.tag("shadow")
				table = append(table, q)
			}
		}
		for i, sh := range scopingShapes {
			q := mkShapeProgram("V"+itoa(100+i), sh)
			q.tag("shadow")
			table = append(table, q)
		}
		// closures over methods of a receiver variable that is re-assigned / mutated after a yield ("closures created before a
		// Yield observe updates made after it"): the in-generator rows of the method-value table
		for i, sh := range methodValueInGenerators() {
			q := mkShapeProgram("M"+itoa(100+i), sh)
			q.tag("closure-before-yield")
			table = append(table, q)
		}
		for i, sh := range optimiserBait {
			if strings.Contains(sh.name, "shadowing") {
				q := mkShapeProgram("O"+itoa(100+i), sh)
				q.tag("shadow")
				table = append(table, q)
			}
		}
		rs.exh = append(rs.exh, "scoping table: "+itoa(len(table))+" programs (shadow site x declaration form {:=, var, var typed})")
		spec := &diffSpec{
			fixed: table,
			profiles: []*profile{scopingProfile()}, batchSize: 40, batches: rs.vol(30, 600),
			nontrivial: func(p *Program, r *Record) bool {
				return r.Yields >= 1 && r.Events >= 1 && (p.hasTag("shadow") || p.hasTag("closure-before-yield") || p.hasTag("init-decl"))
			},
		}
		rs.runDiff(spec)
	}}

	checks["C04"] = &checkT{run: func(rs *runState) {
		rs.rule("range loops inside generators: table kind {string,slice,array,map,chan,int incl. typed ints} x variable form {none,k,k_,_v,kv} x {:=,=} x body " +
			"{yielding, trivial, inside a nested closure, break, continue, nested range, mutating the ranged collection} enumerated completely, plus random range-heavy programs; " +
			"range expression wrapped in a logged evaluation (exactly once); oracle: trace equality with the native range statement (multiset equality for maps with >= 2 entries); " +
			"non-trivial = the loop runs >= 2 iterations or the collection is mutated in the body; distinct by hash(program)+input")
		table := rangeTable()
		table = append(table, rangeShapePrograms()...)
		table = append(table, iteratorValuePrograms()...)
		table = append(table, yieldOperandTable()...)
		spec := &diffSpec{
			profiles: []*profile{rangeProfile()}, batchSize: 40, batches: rs.vol(12, 400),
			fixed: table,
			nontrivial: func(p *Program, r *Record) bool {
				return p.hasTag("iterations>=2") || p.hasTag("mutation") || (p.hasTag("range") && r.Events >= 3) || strings.HasPrefix(p.Profile, "shape:")
			},
		}
		rs.exh = append(rs.exh, "range table: "+itoa(len(table))+" programs (19 collections x 5 variable forms x 2 tokens x 7 body shapes, impossible combinations removed)")
		rs.runDiff(spec)
	}}

	// C10 is decided on the runtime (engine R); this part adds the compiled view of the same statement: WHICH iterator
	// backs a range loop, and with which operand, is the compiler's choice (rewriter/range.go), so the complete range
	// table and the range shapes are also run under C10 (no random programs: those belong to C04)
	checks["C10"] = &checkT{run: func(rs *runState) {
		rs.rule("compiled view: the complete range table (collection x variable form x token x body shape) and the hand-written range shapes (conversions such as []rune(s), named collection types, " +
			"assignment-form operands) compiled by the real compiler; oracle: trace equality with the native range statement; non-trivial = >= 2 iterations or a mutation in the body; distinct by hash(program)+input")
		table := append(rangeTable(), rangeShapePrograms()...)
		rs.exh = append(rs.exh, "range table + range shapes: "+itoa(len(table))+" programs")
		rs.runDiff(&diffSpec{
			fixed: table, styles: importStyles[:1], batchSize: 40,
			nontrivial: func(p *Program, r *Record) bool {
				return p.hasTag("iterations>=2") || p.hasTag("mutation") || strings.HasPrefix(p.Profile, "shape:")
			},
		})
	}}

	checks["C05"] = &checkT{run: func(rs *runState) {
		rs.rule("delegation call graphs of 2-5 generators: YieldFrom of earlier generators, of generator literals, of iterator variables advanced by hand 0-2 times, inside loops/switches; " +
			"recursive tree/chain walks; oracle: trace equality with the reference where YieldFrom(x) is `for x.MoveNext() { yield(x.Current()) }`, and the metamorphic twin " +
			"(every YieldFrom(x) replaced by `for v := range x { Yield(v) }`) compiled in the same package must give the identical trace; " +
			"non-trivial = the program delegates and the trace has >= 2 yields; distinct by hash(program)+input+script")
		spec := &diffSpec{
			profiles: []*profile{delegationProfile()}, batchSize: 20, batches: rs.vol(25, 500),
			fixed: append(append(recursionPrograms(rs.tier == "thorough"), yieldFromRows()...), delegationPrograms()...),
			nontrivial: func(p *Program, r *Record) bool {
				return r.Yields >= 2 && (p.hasTag("yieldfrom") || p.hasTag("generator-literal") || p.hasTag("recursion"))
			},
			mutate: func(_ *rapidT, p *Program) { p.Twin = "yieldfrom-to-range" },
		}
		rs.runDiff(spec)
	}}

	checks["C06"] = &checkT{run: func(rs *runState) {
		rs.rule("consumer functions over generators: range with :=/= (local, field), break/continue/return inside, nested ranges, pull and range mixed on one iterator, " +
			"iterators in struct fields/slices/maps/channels/closures/generic containers/interfaces, method and generic generators, iterator of iterators (19 hand-written shapes x 6 import styles) " +
			"plus random consumer programs; oracle: result and interleaved trace equal to the reference (native range-over-func), which shows that nothing is pulled after leaving a loop; " +
			"non-trivial = the consumer leaves a loop early or mixes pull and range; distinct by hash(program)+input")
		var fixed []*Program
		for i, sh := range consumerShapes {
			fixed = append(fixed, mkShapeProgram("S"+itoa(1000+i), sh))
		}
		fixed = append(fixed, iteratorValuePrograms()...)
		spec := &diffSpec{
			profiles: []*profile{consumerProfile()}, batchSize: 30, batches: rs.vol(20, 400),
			fixed: fixed, fixedStyles: true,
			// "every occurrence of the iterator type is replaced consistently": for the type-position shapes a
			// compiler failure or an output that does not build is this property's violation
			ownsCompileFor: func(p *Program) bool { return len(p.Profile) > 6 && p.Profile[:6] == "shape:" },
			nontrivial: func(p *Program, r *Record) bool {
				return p.hasTag("consumer") && (p.hasTag("break-after-yield") || p.hasTag("return-after-yield") || p.hasTag("iterator-advanced-by-hand")) || len(p.Profile) > 6 && p.Profile[:6] == "shape:"
			},
		}
		rs.runDiff(spec)
	}}

	checks["C11"] = &checkT{run: func(rs *runState) {
		rs.rule("acceptance: the block-end table (every last-statement kind at the end of every block kind) under all 6 import styles, the consumer/type-position shapes, " +
			"and random programs of all profiles spread over 1-3 source files with different import styles plus a _test.go file; oracle: the compiler exits 0 without panic and `go build -gcflags=-e` of the output succeeds without the co tag " +
			"(compile/build casualties of every other engine-T check are the same event); non-trivial = every program (each is a distinct shape); distinct by hash(program)")
		table := blockEndTable()
		for i, sh := range consumerShapes {
			table = append(table, mkShapeProgram("S"+itoa(1000+i), sh))
		}
		if !knownExclusions()["local-shadows-element-type"] {
			table = append(table, mkShapeProgram("K9001", knownFindingShapes["local-shadows-element-type"]))
		}
		table = append(table, loopFormTable()...)
		table = append(table, loopRerunTable()...)
		for i, sh := range closureInGeneratorShapes {
			table = append(table, mkShapeProgram("Z"+itoa(100+i), sh))
		}
		table = append(table, delegationPrograms()...)
		table = append(table, rangeShapePrograms()...)
		spec := &diffSpec{
			profiles: []*profile{controlFlowProfile(), scopingProfile(), rangeProfile(), delegationProfile(), consumerProfile()}, batchSize: 40, batches: rs.vol(12, 600),
			fixed: table, fixedStyles: true,
			ownsCompile: true, noTraceOwner: true,
			multiFile: true, testFiles: true,
		}
		rs.exh = append(rs.exh, "block-end table + type-position shapes: "+itoa(len(table))+" programs x 6 import styles")
		rs.runDiff(spec)
	}}

	checks["C18"] = &checkT{run: func(rs *runState) {
		rs.rule("programs with panic(v) (distinct values) and runtime panics (nil map write) at random statement positions, also inside delegates, loop bodies, switch cases and closures; " +
			"oracle: trace equality with the reference (iter.Pull propagates the panic out of the advance that ran it): same advance, same value, same prefix; consumption stops at the panic; " +
			"non-trivial = the reference run panics after >= 1 delivered value; distinct by hash(program)+input")
		spec := &diffSpec{
			profiles: []*profile{panicProfile()}, batchSize: 40, batches: rs.vol(20, 400),
			nontrivial: func(p *Program, r *Record) bool { return r.Panic != "" && r.Yields >= 1 },
		}
		for i, sh := range panicShapes {
			spec.fixed = append(spec.fixed, mkShapeProgram("K"+itoa(100+i), sh))
		}
		rs.runDiff(spec)
	}}
}

func itoa(n int) string {
	s := ""
	if n == 0 {
		return "0"
	}
	neg := n < 0
	if neg {
		n = -n
	}
	for n > 0 {
		s = string(rune('0'+n%10)) + s
		n /= 10
	}
	if neg {
		s = "-" + s
	}
	return s
}

// yieldFromRows: the rows of the scoping table that delegate (shared with C05)
func yieldFromRows() []*Program {
	var out []*Program
	for _, p := range scopingTable() {
		uses := false
		for _, d := range p.Decls {
			walkStmts(d.Body, func(s *Stmt) {
				if s.K == "yieldfrom" || (s.Post != nil && s.Post.K == "yieldfrom") {
					uses = true
				}
			})
		}
		if uses {
			q := renameProgram(p, "W"+p.Name[1:])
			q.tag("yieldfrom")
			out = append(out, q)
		}
	}
	return out
}

func delegationPrograms() []*Program {
	var out []*Program
	for i, sh := range delegationShapes {
		out = append(out, mkShapeProgram("D"+itoa(100+i), sh))
	}
	return out
}
