package main

import "os"

func (rs *runState) vol(quick, thorough int) int {
	if rs.tier == "thorough" {
		return thorough
	}
	return quick
}

// ---- profiles -----------------------------------------------------------------------------------

func controlFlowProfile() *profile {
	return &profile{
		name: "control-flow", maxDepth: 4, maxStmts: 14,
		w: map[string]int{
			"ev": 10, "decl": 5, "assign": 4, "incdec": 2, "yield": 14, "block": 3, "if": 10, "switch": 8, "tswitch": 3,
			"for": 9, "break": 5, "continue": 4, "return": 3, "closure": 2, "callstmt": 2, "genlit": 1,
		},
		elems: []string{"int", "int", "string", "any"}, nGens: [2]int{1, 1},
		exclude: knownExclusions(),
		scripts: []string{"std"}, fuel: 300,
	}
}

func init() {
	checks["C01"] = &checkT{run: func(rs *runState) {
		rs.rule("generator bodies from the supported control-flow grammar (nesting <= 4, <= 14 statements) x all argument vectors in {0..3}^k x " +
			"consumer cap 40; oracle: interleaved trace of the compiled generator == trace of the iter.Pull reference; " +
			"non-trivial = the executed trace has >= 2 yields and the program has a loop, switch or if nest around a yield " +
			"or a break/continue/return after a yield; distinct by hash(program)+input+script")
		spec := &diffSpec{
			profiles: []*profile{controlFlowProfile()}, batchSize: 40, batches: rs.vol(12, 300),
			nontrivial: func(p *Program, r *Record) bool {
				return r.Yields >= 2 && (p.hasTag("for3") || p.hasTag("for-cond") || p.hasTag("for-infinite") || p.hasTag("break-after-yield") ||
					p.hasTag("continue-after-yield") || p.hasTag("return-after-yield") || p.hasTag("yielding-post") || p.hasTag("else-if"))
			},
		}
		rs.runDiff(spec)
	}}
}

func init() {
	checks["C11"] = &checkT{run: func(rs *runState) {
		rs.rule("acceptance: programs of the supported grammar x import styles; oracle: the compiler exits 0 without panic and go build -gcflags=-e of the output succeeds; " +
			"non-trivial = every program (each is a distinct shape); distinct by hash(program)")
		spec := &diffSpec{
			profiles: []*profile{controlFlowProfile()}, batchSize: 40, batches: rs.vol(12, 300),
			ownsCompile: true,
		}
		rs.runDiff(spec)
	}}
}

// knownExclusions: shapes of recorded known findings (known_findings.json) that the generators leave
// out by construction so the search continues behind them. Set VERIF_INCLUDE_KNOWN=1 to generate them.
func knownExclusions() map[string]bool {
	if os.Getenv("VERIF_INCLUDE_KNOWN") != "" {
		return map[string]bool{}
	}
	return map[string]bool{
		"continue-with-yielding-post": true,
		"break-after-yield-in-switch": true,
	}
}
