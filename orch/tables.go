package main

import "fmt"

// Small-scope exhaustive tables built directly as abstract programs (so they shrink and replay like
// generated ones). They are enumerated completely in every run.

func v(name string) *Expr          { return &Expr{K: "var", Name: name} }
func vt(name, t string) *Expr      { return &Expr{K: "var", Name: name, T: t} }
func bin(op string, l, r *Expr) *Expr { return &Expr{K: "bin", Op: op, L: l, R: r} }
func cmp(op string, l, r *Expr) *Expr { return &Expr{K: "cmp", Op: op, L: l, R: r} }
func evS(id int, args ...*Expr) *Stmt { return &Stmt{K: "ev", ID: id, Args: args} }
func yS(e *Expr) *Stmt             { return &Stmt{K: "yield", E: e} }

// lastStmts: statement sequences to put at the end of a block. Each entry returns fresh statements.
// ctx tells whether break/continue are legal.
type lastKind struct {
	name      string
	needsLoop bool
	needsBrk  bool // needs a breakable (loop or switch)
	yields    bool
	mk        func(id *int) []*Stmt
}

func nid(id *int) int { *id++; return *id }

var lastKinds = []lastKind{
	{name: "ev", mk: func(id *int) []*Stmt { return []*Stmt{evS(nid(id), v("a"))} }},
	{name: "decl", mk: func(id *int) []*Stmt { return []*Stmt{{K: "decl", Name: "z", E: bin("+", v("a"), lit(1))}} }},
	{name: "assign", mk: func(id *int) []*Stmt { return []*Stmt{{K: "assign", Name: "a", Op: "+=", E: lit(1)}} }},
	{name: "yield", yields: true, mk: func(id *int) []*Stmt { return []*Stmt{yS(bin("+", v("a"), lit(10)))} }},
	{name: "if-trivial", mk: func(id *int) []*Stmt {
		return []*Stmt{{K: "if", E: cmp(">", v("a"), lit(1)), Body: []*Stmt{evS(nid(id))}}}
	}},
	{name: "if-yield", yields: true, mk: func(id *int) []*Stmt {
		return []*Stmt{{K: "if", E: cmp(">", v("a"), lit(1)), Body: []*Stmt{yS(lit(21))}}}
	}},
	{name: "if-else-yield", yields: true, mk: func(id *int) []*Stmt {
		return []*Stmt{{K: "if", E: cmp(">", v("a"), lit(1)), Body: []*Stmt{yS(lit(22))}, HasElse: true, Else: []*Stmt{evS(nid(id))}}}
	}},
	{name: "if-elseif-yield", yields: true, mk: func(id *int) []*Stmt {
		return []*Stmt{{K: "if", E: cmp(">", v("a"), lit(2)), Body: []*Stmt{evS(nid(id))},
			ElseIf: &Stmt{K: "if", E: cmp(">", v("a"), lit(0)), Body: []*Stmt{yS(lit(23))}, HasElse: true, Else: []*Stmt{yS(lit(24))}}}}
	}},
	{name: "switch-trivial", mk: func(id *int) []*Stmt {
		return []*Stmt{{K: "switch", E: v("a"), Cases: []*Case{{Exprs: []*Expr{lit(1)}, Body: []*Stmt{evS(nid(id))}}, {Default: true, Body: []*Stmt{evS(nid(id))}}}}}
	}},
	{name: "switch-trivial-break", mk: func(id *int) []*Stmt {
		return []*Stmt{{K: "switch", E: v("a"), Cases: []*Case{{Exprs: []*Expr{lit(1)}, Body: []*Stmt{{K: "if", E: cmp(">", v("a"), lit(0)), Body: []*Stmt{{K: "break"}}}, evS(nid(id))}}}}}
	}},
	{name: "switch-trivial-fallthrough", mk: func(id *int) []*Stmt {
		return []*Stmt{{K: "raw", Raw: "switch a {\ncase 1:\n\ttr.Ev(901)\n\tfallthrough\ncase 2:\n\ttr.Ev(902)\ndefault:\n\ttr.Ev(903)\n}"}}
	}},
	{name: "explicitly-instantiated-yield", yields: true, mk: func(id *int) []*Stmt {
		return []*Stmt{{K: "raw", Raw: "$YIELDT{int}{a + 70}"}, evS(nid(id))}
	}},
	{name: "switch-yield", yields: true, mk: func(id *int) []*Stmt {
		return []*Stmt{{K: "switch", E: v("a"), Cases: []*Case{{Exprs: []*Expr{lit(1)}, Body: []*Stmt{yS(lit(31))}}, {Exprs: []*Expr{lit(2)}, Body: []*Stmt{evS(nid(id))}}}}}
	}},
	{name: "switch-yield-default-first", yields: true, mk: func(id *int) []*Stmt {
		return []*Stmt{{K: "switch", E: v("a"), Cases: []*Case{{Default: true, Body: []*Stmt{yS(lit(32))}}, {Exprs: []*Expr{lit(2)}, Body: []*Stmt{evS(nid(id))}}}}}
	}},
	{name: "switch-case-ending-in-if", yields: true, mk: func(id *int) []*Stmt {
		return []*Stmt{{K: "switch", E: v("a"), Cases: []*Case{
			{Exprs: []*Expr{lit(1)}, Body: []*Stmt{yS(lit(33)), {K: "if", E: cmp(">", v("a"), lit(0)), Body: []*Stmt{yS(lit(34))}}}},
			{Exprs: []*Expr{lit(2)}, Body: []*Stmt{{K: "if", E: cmp(">", v("a"), lit(0)), Body: []*Stmt{evS(nid(id))}}}}}}}
	}},
	{name: "tagless-switch-yield", yields: true, mk: func(id *int) []*Stmt {
		return []*Stmt{{K: "switch", Cases: []*Case{{Exprs: []*Expr{cmp(">", v("a"), lit(1))}, Body: []*Stmt{yS(lit(35))}}, {Default: true, Body: []*Stmt{evS(nid(id))}}}}}
	}},
	{name: "switch-yield-init", yields: true, mk: func(id *int) []*Stmt {
		return []*Stmt{{K: "switch", Init: yS(lit(36)), E: v("a"), Cases: []*Case{{Exprs: []*Expr{lit(1)}, Body: []*Stmt{evS(nid(id))}}}}}
	}},
	{name: "switch-decl-init-yield", yields: true, mk: func(id *int) []*Stmt {
		return []*Stmt{{K: "switch", Init: &Stmt{K: "decl", Name: "a", E: bin("+", v("a"), lit(1))}, E: v("a"), Cases: []*Case{{Exprs: []*Expr{lit(2)}, Body: []*Stmt{yS(v("a"))}}}}}
	}},
	{name: "typeswitch-yield", yields: true, mk: func(id *int) []*Stmt {
		return []*Stmt{{K: "tswitch", Name: "t", Raw: "tr.Any(a)", Cases: []*Case{{Types: []string{"int"}, Body: []*Stmt{yS(vt("t", "int"))}}, {Types: []string{"string", "nil"}, Body: []*Stmt{evS(nid(id))}}, {Default: true, Body: []*Stmt{yS(lit(37))}}}}}
	}},
	{name: "for-trivial", mk: func(id *int) []*Stmt {
		return []*Stmt{{K: "for", Init: &Stmt{K: "decl", Name: "j", E: lit(0)}, E: cmp("<", v("j"), lit(2)), Post: &Stmt{K: "incdec", Name: "j", Op: "++"}, Body: []*Stmt{evS(nid(id), v("j"))}}}
	}},
	{name: "for-trivial-break-at-end", mk: func(id *int) []*Stmt {
		return []*Stmt{{K: "for", Body: []*Stmt{evS(nid(id)), {K: "break"}}}}
	}},
	{name: "for-trivial-cond-break", mk: func(id *int) []*Stmt {
		return []*Stmt{{K: "decl", Name: "j", E: lit(0)}, {K: "for", Body: []*Stmt{evS(nid(id)), {K: "incdec", Name: "j", Op: "++"}, {K: "if", E: cmp(">", v("j"), lit(1)), Body: []*Stmt{{K: "break"}}}}}}
	}},
	{name: "for-trivial-break-only-in-else-if", mk: func(id *int) []*Stmt {
		return []*Stmt{{K: "decl", Name: "j", E: lit(0)}, {K: "for", Body: []*Stmt{evS(nid(id)), {K: "incdec", Name: "j", Op: "++"},
			{K: "if", E: cmp("<", v("j"), lit(0)), Body: []*Stmt{evS(nid(id))}, ElseIf: &Stmt{K: "if", E: cmp(">", v("j"), lit(1)), Body: []*Stmt{{K: "break"}}}}}}}
	}},
	{name: "for-trivial-break-only-in-else", mk: func(id *int) []*Stmt {
		return []*Stmt{{K: "decl", Name: "j", E: lit(0)}, {K: "for", Body: []*Stmt{evS(nid(id)), {K: "incdec", Name: "j", Op: "++"},
			{K: "if", E: cmp("<", v("j"), lit(2)), Body: []*Stmt{evS(nid(id))}, HasElse: true, Else: []*Stmt{{K: "break"}}}}}}
	}},
	{name: "for-trivial-break-in-nested-block", mk: func(id *int) []*Stmt {
		return []*Stmt{{K: "decl", Name: "j", E: lit(0)}, {K: "for", Body: []*Stmt{evS(nid(id)), {K: "incdec", Name: "j", Op: "++"},
			{K: "block", Body: []*Stmt{{K: "if", E: cmp(">", v("j"), lit(1)), Body: []*Stmt{{K: "block", Body: []*Stmt{{K: "break"}}}}}}}}}}
	}},
	{name: "for-yield", yields: true, mk: func(id *int) []*Stmt {
		return []*Stmt{{K: "for", Init: &Stmt{K: "decl", Name: "j", E: lit(0)}, E: cmp("<", v("j"), lit(2)), Post: &Stmt{K: "incdec", Name: "j", Op: "++"}, Body: []*Stmt{evS(nid(id)), yS(bin("+", lit(40), v("j")))}}}
	}},
	{name: "for-yield-init", yields: true, mk: func(id *int) []*Stmt {
		return []*Stmt{{K: "decl", Name: "j", E: lit(0)}, {K: "for", Init: yS(lit(41)), E: cmp("<", v("j"), lit(2)), Post: &Stmt{K: "incdec", Name: "j", Op: "++"}, Body: []*Stmt{evS(nid(id))}}}
	}},
	{name: "for-yield-post", yields: true, mk: func(id *int) []*Stmt {
		return []*Stmt{{K: "decl", Name: "j", E: lit(0)}, {K: "for", E: cmp("<", v("j"), lit(2)), Post: yS(bin("+", lit(42), v("j"))), Body: []*Stmt{evS(nid(id)), {K: "incdec", Name: "j", Op: "++"}}}}
	}},
	{name: "for-yield-post-body-decl", yields: true, mk: func(id *int) []*Stmt {
		return []*Stmt{{K: "decl", Name: "j", E: lit(0)}, {K: "for", E: cmp("<", v("j"), lit(2)), Post: yS(bin("+", lit(43), v("j"))), Body: []*Stmt{evS(nid(id)), {K: "incdec", Name: "j", Op: "++"}, {K: "decl", Name: "j", E: lit(7)}}}}
	}},
	{name: "for-yield-post-body-var-decl", yields: true, mk: func(id *int) []*Stmt {
		return []*Stmt{{K: "decl", Name: "j", E: lit(0)}, {K: "for", E: cmp("<", v("j"), lit(2)), Post: yS(bin("+", lit(43), v("j"))), Body: []*Stmt{evS(nid(id)), {K: "incdec", Name: "j", Op: "++"}, {K: "decl", T: "var", Name: "j", E: bin("*", v("j"), lit(100))}}}}
	}},
	{name: "for-infinite-yield-break", yields: true, mk: func(id *int) []*Stmt {
		return []*Stmt{{K: "decl", Name: "j", E: lit(0)}, {K: "for", Body: []*Stmt{evS(nid(id)), yS(v("j")), {K: "incdec", Name: "j", Op: "++"}, {K: "if", E: cmp(">", v("j"), lit(1)), Body: []*Stmt{{K: "break"}}}}}}
	}},
	{name: "for-body-ends-in-switch-yield", yields: true, mk: func(id *int) []*Stmt {
		return []*Stmt{{K: "for", Init: &Stmt{K: "decl", Name: "j", E: lit(0)}, E: cmp("<", v("j"), lit(3)), Post: &Stmt{K: "incdec", Name: "j", Op: "++"}, Body: []*Stmt{evS(nid(id)),
			{K: "switch", E: v("j"), Cases: []*Case{{Exprs: []*Expr{lit(1)}, Body: []*Stmt{yS(lit(44))}}}}}}}
	}},
	{name: "range-trivial", mk: func(id *int) []*Stmt {
		return []*Stmt{{K: "range", Name: "k", Name2: "e", Op: ":=", Coll: &Coll{Kind: "slice", Lit: "[]int{5, 6}", KT: "int", VT: "int"}, Body: []*Stmt{evS(nid(id), v("k"), v("e"))}}}
	}},
	{name: "range-yield", yields: true, mk: func(id *int) []*Stmt {
		return []*Stmt{{K: "range", Name: "k", Name2: "e", Op: ":=", Coll: &Coll{Kind: "slice", Lit: "[]int{5, 6}", KT: "int", VT: "int"}, Body: []*Stmt{evS(nid(id)), yS(bin("+", v("k"), v("e")))}}}
	}},
	{name: "block-trivial", mk: func(id *int) []*Stmt { return []*Stmt{{K: "block", Body: []*Stmt{evS(nid(id))}}} }},
	{name: "block-yield", yields: true, mk: func(id *int) []*Stmt { return []*Stmt{{K: "block", Body: []*Stmt{yS(lit(50)), evS(nid(id))}}} }},
	{name: "break", needsBrk: true, mk: func(id *int) []*Stmt { return []*Stmt{{K: "break"}} }},
	{name: "if-break", needsBrk: true, mk: func(id *int) []*Stmt {
		return []*Stmt{{K: "if", E: cmp(">", v("a"), lit(1)), Body: []*Stmt{{K: "break"}}}}
	}},
	{name: "continue", needsLoop: true, mk: func(id *int) []*Stmt { return []*Stmt{{K: "continue"}} }},
	{name: "if-continue-else-yield", needsLoop: true, yields: true, mk: func(id *int) []*Stmt {
		return []*Stmt{{K: "if", E: cmp(">", v("a"), lit(1)), Body: []*Stmt{{K: "continue"}}, HasElse: true, Else: []*Stmt{yS(lit(51))}}}
	}},
	{name: "return", mk: func(id *int) []*Stmt { return []*Stmt{{K: "return"}} }},
	{name: "if-return-else-return", mk: func(id *int) []*Stmt {
		return []*Stmt{{K: "if", E: cmp(">", v("a"), lit(1)), Body: []*Stmt{{K: "return"}}, HasElse: true, Else: []*Stmt{evS(nid(id)), {K: "return"}}}}
	}},
	// terminating statements other than return: whether `return Normal()` has to be appended is decided by the compiler's own
	// terminating-statement analysis (panic calls, loops without condition and break, switches whose clauses all terminate)
	{name: "panic", mk: func(id *int) []*Stmt { return []*Stmt{{K: "panic", E: lit(nid(id))}} }},
	{name: "if-yield-else-panic", yields: true, mk: func(id *int) []*Stmt {
		return []*Stmt{{K: "if", E: cmp(">", v("a"), lit(1)), Body: []*Stmt{yS(lit(25))}, HasElse: true, Else: []*Stmt{{K: "panic", E: lit(nid(id))}}}}
	}},
	{name: "if-panic-else-return", mk: func(id *int) []*Stmt {
		return []*Stmt{{K: "if", E: cmp(">", v("a"), lit(1)), Body: []*Stmt{{K: "panic", E: lit(nid(id))}}, HasElse: true, Else: []*Stmt{evS(nid(id)), {K: "return"}}}}
	}},
	{name: "if-elseif-else-all-terminating-with-yield", yields: true, mk: func(id *int) []*Stmt {
		return []*Stmt{{K: "if", E: cmp(">", v("a"), lit(2)), Body: []*Stmt{yS(lit(26)), {K: "return"}},
			ElseIf: &Stmt{K: "if", E: cmp(">", v("a"), lit(0)), Body: []*Stmt{{K: "panic", E: lit(nid(id))}}, HasElse: true, Else: []*Stmt{yS(lit(27)), {K: "return"}}}}}
	}},
	{name: "switch-yield-default-panic", yields: true, mk: func(id *int) []*Stmt {
		return []*Stmt{{K: "switch", E: v("a"), Cases: []*Case{{Exprs: []*Expr{lit(1)}, Body: []*Stmt{yS(lit(38)), {K: "return"}}}, {Default: true, Body: []*Stmt{{K: "panic", E: lit(nid(id))}}}}}}
	}},
	{name: "switch-all-clauses-return", mk: func(id *int) []*Stmt {
		return []*Stmt{{K: "switch", E: v("a"), Cases: []*Case{{Exprs: []*Expr{lit(1)}, Body: []*Stmt{evS(nid(id)), {K: "return"}}}, {Default: true, Body: []*Stmt{{K: "return"}}}}}}
	}},
	{name: "for-infinite-yield-return", yields: true, mk: func(id *int) []*Stmt {
		return []*Stmt{{K: "decl", Name: "j", E: lit(0)}, {K: "for", Body: []*Stmt{evS(nid(id)), yS(v("j")), {K: "incdec", Name: "j", Op: "++"}, {K: "if", E: cmp(">", v("j"), lit(1)), Body: []*Stmt{{K: "return"}}}}}}
	}},
	{name: "for-infinite-trivial-return", mk: func(id *int) []*Stmt {
		return []*Stmt{{K: "decl", Name: "j", E: lit(0)}, {K: "for", Body: []*Stmt{evS(nid(id)), {K: "incdec", Name: "j", Op: "++"}, {K: "if", E: cmp(">", v("j"), lit(1)), Body: []*Stmt{{K: "return"}}}}}}
	}},
	{name: "closure-decl-call", mk: func(id *int) []*Stmt {
		return []*Stmt{{K: "closure", Name: "f", Fn: &FuncLit{Body: []*Stmt{evS(nid(id), v("a"))}}}, {K: "callstmt", Name: "f"}}
	}},
	{name: "generator-literal", yields: true, mk: func(id *int) []*Stmt {
		return []*Stmt{{K: "closure", Name: "gl", Fn: &FuncLit{Gen: true, Elem: "int", Params: []Param{{"p", "int"}}, Body: []*Stmt{yS(v("p")), evS(nid(id))}}},
			{K: "yieldfrom", Iter: &IterExpr{K: "var", Name: "gl", Args: []*Expr{bin("+", v("a"), lit(60))}, Elem: "int"}}}
	}},
}

type blockKind struct {
	name   string
	inLoop bool
	brk    bool
	// wrap places inner (the block's statements) into the block kind
	wrap func(id *int, inner []*Stmt) []*Stmt
}

var blockKinds = []blockKind{
	{name: "func-body", wrap: func(id *int, in []*Stmt) []*Stmt { return in }},
	{name: "after-yield", wrap: func(id *int, in []*Stmt) []*Stmt { return append([]*Stmt{yS(lit(1))}, in...) }},
	{name: "if-branch", wrap: func(id *int, in []*Stmt) []*Stmt {
		return []*Stmt{{K: "if", E: cmp(">=", v("a"), lit(0)), Body: in}}
	}},
	{name: "else-branch", wrap: func(id *int, in []*Stmt) []*Stmt {
		return []*Stmt{{K: "if", E: cmp("<", v("a"), lit(0)), Body: []*Stmt{evS(nid(id))}, HasElse: true, Else: in}}
	}},
	{name: "else-branch-of-yielding-if", wrap: func(id *int, in []*Stmt) []*Stmt {
		return []*Stmt{{K: "if", E: cmp("<", v("a"), lit(0)), Body: []*Stmt{yS(lit(2))}, HasElse: true, Else: in}}
	}},
	{name: "case-body", brk: true, wrap: func(id *int, in []*Stmt) []*Stmt {
		return []*Stmt{{K: "switch", E: bin("%", v("a"), lit(2)), Cases: []*Case{{Exprs: []*Expr{lit(0), lit(1)}, Body: in}, {Default: true, Body: []*Stmt{evS(nid(id))}}}}}
	}},
	{name: "case-body-of-yielding-switch", brk: true, wrap: func(id *int, in []*Stmt) []*Stmt {
		return []*Stmt{{K: "switch", E: bin("%", v("a"), lit(2)), Cases: []*Case{{Exprs: []*Expr{lit(5)}, Body: []*Stmt{yS(lit(3))}}, {Default: true, Body: in}}}}
	}},
	{name: "for3-body", inLoop: true, brk: true, wrap: func(id *int, in []*Stmt) []*Stmt {
		return []*Stmt{{K: "for", Init: &Stmt{K: "decl", Name: "i", E: lit(0)}, E: cmp("<", v("i"), lit(2)), Post: &Stmt{K: "incdec", Name: "i", Op: "++"}, Body: append([]*Stmt{evS(nid(id), v("i"))}, in...)}}
	}},
	{name: "yielding-for-body", inLoop: true, brk: true, wrap: func(id *int, in []*Stmt) []*Stmt {
		return []*Stmt{{K: "for", Init: &Stmt{K: "decl", Name: "i", E: lit(0)}, E: cmp("<", v("i"), lit(2)), Post: &Stmt{K: "incdec", Name: "i", Op: "++"}, Body: append([]*Stmt{evS(nid(id), v("i")), yS(v("i"))}, in...)}}
	}},
	{name: "cond-for-body", inLoop: true, brk: true, wrap: func(id *int, in []*Stmt) []*Stmt {
		return []*Stmt{{K: "decl", Name: "i", E: lit(0)}, {K: "for", E: cmp("<", v("i"), lit(2)), Body: append([]*Stmt{evS(nid(id), v("i")), {K: "incdec", Name: "i", Op: "++"}}, in...)}}
	}},
	{name: "range-body", inLoop: true, brk: true, wrap: func(id *int, in []*Stmt) []*Stmt {
		return []*Stmt{{K: "range", Name: "i", Op: ":=", Coll: &Coll{Kind: "int", Lit: "2", KT: "int"}, Body: append([]*Stmt{evS(nid(id), v("i"))}, in...)}}
	}},
	{name: "nested-block", wrap: func(id *int, in []*Stmt) []*Stmt { return []*Stmt{{K: "block", Body: in}} }},
	{name: "generator-literal-body", wrap: func(id *int, in []*Stmt) []*Stmt {
		return []*Stmt{{K: "closure", Name: "g", Fn: &FuncLit{Gen: true, Elem: "int", Params: []Param{{"a", "int"}}, Body: append([]*Stmt{yS(lit(4))}, in...)}},
			{K: "yieldfrom", Iter: &IterExpr{K: "var", Name: "g", Args: []*Expr{v("a")}, Elem: "int"}}}
	}},
}

// blockEndTable: every last-statement kind at the end of every block kind, with and without
// statements following the block.
func blockEndTable() []*Program {
	var out []*Program
	n := 0
	for _, bk := range blockKinds {
		for _, lk := range lastKinds {
			if lk.needsLoop && !bk.inLoop {
				continue
			}
			if lk.needsBrk && !bk.brk {
				continue
			}
			for _, follow := range []string{"none", "ev", "yield", "inner-yield", "inner-return"} {
				if follow != "none" && (lk.name == "return" || lk.name == "if-return-else-return") && bk.name == "func-body" {
					continue // dead code
				}
				innerFollow := ""
				if follow == "inner-yield" || follow == "inner-return" {
					// one more statement INSIDE the block, after the statement under test
					if bk.name == "func-body" {
						continue // same as follow
					}
					innerFollow = follow
				}
				n++
				id := 0
				name := fmt.Sprintf("B%04d", n)
				inner := lk.mk(&id)
				if innerFollow != "" {
					if terminating(inner) || endsInBranch(inner) {
						n--
						continue
					}
					if innerFollow == "inner-yield" {
						inner = append(inner, yS(lit(77)))
					} else {
						inner = append(inner, evS(nid(&id)), &Stmt{K: "return"})
					}
					follow = "yield"
				}
				body := bk.wrap(&id, inner)
				if !lk.yields {
					// the function must be a generator: a leading yield
					body = append([]*Stmt{yS(lit(0))}, body...)
				}
				if terminatingBody(body) && follow != "none" {
					continue
				}
				switch follow {
				case "ev":
					body = append(body, evS(nid(&id), v("a")))
				case "yield":
					body = append(body, yS(lit(99)))
				}
				p := &Program{Name: name, Profile: "block-end-table", Tags: []string{"block:" + bk.name, "last:" + lk.name, "follow:" + follow, "inner-follow:" + innerFollow}}
				p.Decls = []*Decl{{Kind: "gen", Name: name + "G", Params: []Param{{"a", "int"}}, Elem: "int", Body: body}}
				p.Entries = []*Entry{{Name: name + "G", Kind: "drive", Call: "$P" + name + "G($0)", Elem: "int", Inputs: allInputs(1, 0, 3), Scripts: []string{"std"}}}
				out = append(out, p)
			}
		}
	}
	return out
}

func terminatingBody(body []*Stmt) bool { return terminating(body) }

// ---- C04: range table ---------------------------------------------------------------------------

type collDef struct {
	kind, kt, vt string
	lit          string // literal (bound to variable c first)
	n            int
	unordered    bool
	muts         []string // statements mutating c inside the loop body (i = iteration counter variable)
	hugeBound    bool     // the loop must be left by break (only body shape "break")
	setup        string   // extra statements after `c := lit`
	rangeExpr    string   // expression in the range header (default: c)
	inserts      bool     // body shape "insert": every visit of an original entry inserts new entries (which may or may not be visited)
}

var collDefs = []collDef{
	{kind: "string", kt: "int", vt: "rune", lit: `"héy\xffz"`, n: 5},
	{kind: "string", kt: "int", vt: "rune", lit: `"a\uFFFDb\xef\xbf"`, n: 5},
	{kind: "string", kt: "int", vt: "rune", lit: `""`, n: 0},
	{kind: "string", kt: "int", vt: "rune", lit: `tr.MyStr("hé\xffy")`, n: 4}, // named string type
	{kind: "slice", kt: "int", vt: "int", lit: `[]int{4, 5, 6}`, n: 3, muts: []string{"c[2] = 60 + n", "c = append(c, 7)", "c = c[:1]", "c[0] = 9"}},
	{kind: "slice", kt: "int", vt: "any", lit: `[]any{1, nil, "z"}`, n: 3, muts: []string{"c[1] = n"}},
	{kind: "slice", kt: "int", vt: "int", lit: `[]int(nil)`, n: 0},
	{kind: "array", kt: "int", vt: "int", lit: `[3]int{7, 8, 9}`, n: 3, muts: []string{"c[2] = 90 + n", "c[0] = 1"}},
	{kind: "array", kt: "int", vt: "int", lit: `[3]int{7, 8, 9}`, n: 3, rangeExpr: "(c)"},
	{kind: "array", kt: "int", vt: "int", lit: `[3]int{7, 8, 9}`, n: 3, setup: "pc := &c", rangeExpr: "*pc"},
	{kind: "array", kt: "int", vt: "int", lit: `[3]int{7, 8, 9}`, n: 3, setup: "st := struct{ arr [3]int }{c}", rangeExpr: "st.arr"},
	{kind: "array", kt: "int", vt: "int", lit: `[3]int{7, 8, 9}`, n: 3, setup: "pst := &struct{ arr [3]int }{c}", rangeExpr: "pst.arr"},
	{kind: "array", kt: "int", vt: "int", lit: `[3]int{7, 8, 9}`, n: 3, setup: "sa := [][3]int{c, c}", rangeExpr: "sa[1]"},
	{kind: "array", kt: "int", vt: "int", lit: `[3]int{7, 8, 9}`, n: 3, setup: "aa := [2][3]int{c, c}", rangeExpr: "aa[1]"},
	{kind: "array", kt: "int", vt: "int", lit: `[3]int{7, 8, 9}`, n: 3, setup: `ma := map[string][3]int{"k": c}`, rangeExpr: `ma["k"]`},
	{kind: "array", kt: "int", vt: "int", lit: `[3]int{7, 8, 9}`, n: 3, setup: "mk := func() [3]int { return c }", rangeExpr: "mk()"},
	{kind: "map", kt: "int", vt: "int", lit: `map[int]int{5: 6}`, n: 1, muts: []string{"c[5] = 60", "delete(c, 5)"}},
	{kind: "map", kt: "int", vt: "int", lit: `map[int]int{1: 10, 2: 20, 3: 30}`, n: 3, unordered: true},
	// pre-sized map: insertions during the loop do not grow it, so new entries land in buckets the iteration has not
	// reached yet; every ORIGINAL entry must still be visited exactly once (only those are observable in the body)
	{kind: "map", kt: "int", vt: "int", lit: `func() map[int]int { m := make(map[int]int, 256); for i := 0; i < 8; i++ { m[i] = 10 * i }; return m }()`, n: 8, unordered: true, inserts: true},
	{kind: "map", kt: "string", vt: "any", lit: `map[string]any{"k": nil}`, n: 1},
	{kind: "map", kt: "any", vt: "error", lit: `map[any]error{nil: nil}`, n: 1},
	{kind: "map", kt: "int", vt: "int", lit: `map[int]int(nil)`, n: 0},
	{kind: "map", kt: "float64", vt: "int", lit: `tr.NaNMap()`, n: 1},
	// the body observes / shares the channel: one receive per iteration, never ahead of demand
	{kind: "chan", kt: "int", vt: "", lit: `tr.Chan(3, 4, 5)`, n: 3, muts: []string{"tr.Ev(5, len(c))", "if len(c) > 0 {\n\t\t\ttr.Ev(6, <-c)\n\t\t}"}},
	{kind: "chan", kt: "int", vt: "", lit: `tr.Chan(3, 4, 5, 6, 7)`, n: 5, muts: []string{"if n == 2 {\n\t\t\ttr.Ev(7, len(c))\n\t\t\tbreak\n\t\t}"}},
	{kind: "chan", kt: "string", vt: "", lit: `tr.Chan[string]()`, n: 0},
	{kind: "int", kt: "int", vt: "", lit: `3`, n: 3},
	{kind: "int", kt: "int", vt: "", lit: `0`, n: 0},
	{kind: "int", kt: "int", vt: "", lit: `-2`, n: 0},
	{kind: "int", kt: "int64", vt: "", lit: `int64(3)`, n: 3},
	{kind: "int", kt: "uint8", vt: "", lit: `uint8(2)`, n: 2},
	{kind: "int", kt: "tr.MyInt", vt: "", lit: `tr.MyInt(2)`, n: 2},
	// untyped constant bound: with `=` and a typed variable the constant takes the variable's type
	{kind: "int", kt: "uint8", vt: "", lit: `3`, n: 3, rangeExpr: "3"},
	{kind: "int", kt: "int64", vt: "", lit: `2`, n: 2, rangeExpr: "1 + 1"},
	{kind: "int", kt: "tr.MyInt", vt: "", lit: `2`, n: 2, rangeExpr: "2"}, // named integer type, constant bound
	{kind: "int", kt: "uint64", vt: "", lit: `uint64(1)<<63 + 5`, n: 3, hugeBound: true},
	{kind: "int", kt: "uint", vt: "", lit: `^uint(0)`, n: 3, hugeBound: true},
}

var rangeBodies = []string{"yield", "trivial", "closure", "break", "continue", "nested", "mutate", "insert"}

// rangeTable: kind x variable form x token x body shape
func rangeTable() []*Program {
	var out []*Program
	n := 0
	for _, cd := range collDefs {
		for form := 0; form <= 4; form++ {
			if cd.vt == "" && form >= 2 {
				continue
			}
			for _, op := range []string{":=", "="} {
				if form == 0 && op == "=" {
					continue
				}
				for _, bodyKind := range rangeBodies {
					if bodyKind == "mutate" && len(cd.muts) == 0 {
						continue
					}
					if knownExclusions()["array-range-live-not-copied"] && cd.kind == "array" && form >= 3 && bodyKind == "mutate" && (n+1)%2 == 0 {
						n++ // keep the numbering (and so the Vl/plain alternation) stable
						continue // known finding: the live array is ranged, not a copy
					}
					if (bodyKind == "insert") != cd.inserts || (cd.inserts && form == 0) {
						continue
					}
					if cd.hugeBound && bodyKind != "break" {
						continue
					}
					if cd.unordered && (bodyKind == "break" || bodyKind == "continue") {
						continue // which entries are visited before the n-th iteration is unspecified
					}
					n++
					name := fmt.Sprintf("R%04d", n)
					out = append(out, rangeProgram(name, cd, form, op, bodyKind, n))
				}
			}
		}
	}
	return out
}

func rangeProgram(name string, cd collDef, form int, op, bodyKind string, salt int) *Program {
	p := &Program{Name: name, Profile: "range-table", Unordered: cd.unordered,
		Tags: []string{"range-" + cd.kind, fmt.Sprintf("form%d", form), "tok" + op, "body:" + bodyKind}}
	if cd.n >= 2 {
		p.tag("iterations>=2")
	}
	var body []*Stmt
	// the collection is bound to a variable so the body can mutate it; the range expression is
	// wrapped in tr.Vl (evaluated exactly once)
	body = append(body, &Stmt{K: "rawsimple", Raw: "c := " + cd.lit}, &Stmt{K: "rawsimple", Raw: "_ = c"}, &Stmt{K: "decl", Name: "n", E: lit(0)})
	rx := "c"
	if cd.setup != "" {
		body = append(body, &Stmt{K: "rawsimple", Raw: cd.setup})
	}
	if cd.rangeExpr != "" {
		rx = cd.rangeExpr
		p.tag("range-expr:" + cd.rangeExpr)
	}
	rs := &Stmt{K: "range", Op: op, Coll: &Coll{Kind: cd.kind, Lit: rx, KT: cd.kt, VT: cd.vt, Vl: 77, N: cd.n}}
	if salt%2 == 0 || cd.rangeExpr != "" {
		rs.Coll.Vl = 0 // plain range expression (addressable or not, as written)
		p.tag("plain-range-expression")
	}
	var logArgs []*Expr
	mk := func(nm, t string) string {
		if op == "=" {
			body = append(body, &Stmt{K: "var", Name: nm, T: t})
		}
		logArgs = append(logArgs, vt(nm, t))
		return nm
	}
	switch form {
	case 1:
		rs.Name = mk("k", cd.kt)
	case 2:
		rs.Name, rs.Name2 = mk("k", cd.kt), "_"
	case 3:
		rs.Name, rs.Name2 = "_", mk("e", cd.vt)
	case 4:
		rs.Name, rs.Name2 = mk("k", cd.kt), mk("e", cd.vt)
	}
	log := &Stmt{K: "ev", ID: 1, Args: append([]*Expr{v("n")}, logArgs...)}
	if cd.unordered {
		// iteration order is unspecified: per-iteration records must not depend on the position
		log = &Stmt{K: "ev", ID: 1, Args: logArgs}
	}
	sum := lit(0)
	for _, a := range logArgs {
		sum = bin("+", sum, a)
	}
	inc := &Stmt{K: "incdec", Name: "n", Op: "++"}
	var lb []*Stmt
	switch bodyKind {
	case "yield":
		lb = []*Stmt{log, inc, yS(bin("+", bin("*", v("n"), lit(100)), sum))}
		if cd.unordered {
			lb = []*Stmt{log, inc, yS(sum)}
		}
	case "trivial":
		lb = []*Stmt{log, inc}
	case "closure":
		lb = nil
	case "break":
		lb = []*Stmt{log, inc, {K: "if", E: cmp(">=", v("n"), lit(2)), Body: []*Stmt{{K: "break"}}}, yS(sum)}
	case "continue":
		lb = []*Stmt{log, inc, {K: "if", E: cmp("==", v("n"), lit(2)), Body: []*Stmt{{K: "continue"}}}, yS(sum)}
	case "nested":
		inner := &Stmt{K: "range", Name: "j", Op: ":=", Coll: &Coll{Kind: "int", Lit: "2", KT: "int"}, Body: []*Stmt{evS(2, v("j")), yS(bin("+", v("j"), sum))}}
		lb = []*Stmt{log, inc, inner}
	case "insert":
		// inserted entries have keys and values >= 1000 and are not observable
		ins := &Stmt{K: "rawsimple", Raw: "for j := 0; j < 8; j++ { c[1000+n*8+j] = 1000 }"}
		lb = []*Stmt{{K: "if", E: cmp("<", sum, lit(1000)), Body: []*Stmt{log, inc, ins, yS(sum)}}}
		p.tag("mutation")
		p.tag("map-insert-during-range")
	case "mutate":
		m := cd.muts[salt%len(cd.muts)]
		lb = []*Stmt{log, inc, {K: "rawsimple", Raw: m}, yS(sum)}
		p.tag("mutation")
	}
	if bodyKind == "closure" {
		// the range loop sits inside a plain closure nested in the generator
		rs.Body = []*Stmt{log, inc}
		fl := &FuncLit{Body: []*Stmt{rs}}
		body = append(body, &Stmt{K: "closure", Name: "f", Fn: fl}, yS(lit(1)), &Stmt{K: "callstmt", Name: "f"}, yS(v("n")))
	} else {
		rs.Body = lb
		body = append(body, yS(lit(1)), rs, yS(v("n")))
	}
	if op == "=" && len(logArgs) > 0 && !cd.unordered {
		// the variables keep their last value after the loop
		body = append(body, &Stmt{K: "ev", ID: 3, Args: logArgs})
	}
	p.Decls = []*Decl{{Kind: "gen", Name: name + "G", Params: []Param{{"a", "int"}}, Elem: "int", Body: body}}
	p.Entries = []*Entry{{Name: name + "G", Kind: "drive", Call: "$P" + name + "G($0)", Elem: "int", Inputs: [][]int{{0}}, Scripts: []string{"std"}}}
	return p
}

// ---- C03: scoping table: shadow site x declaration form --------------------------------------------

func scopingTable() []*Program {
	var out []*Program
	n := 0
	x := func() *Expr { return v("x") }
	for _, form := range []string{"", "var", "var-typed"} {
		decl := func(name string, e *Expr) *Stmt { return &Stmt{K: "decl", T: form, Name: name, E: e} }
		sites := map[string][]*Stmt{
			"nested-block": {{K: "block", Body: []*Stmt{decl("x", bin("*", x(), lit(10))), yS(x())}}, yS(x())},
			"block-after-yield": {yS(x()), {K: "block", Body: []*Stmt{decl("x", bin("+", x(), lit(1))), yS(x()), {K: "assign", Name: "x", Op: "+=", E: lit(5)}, yS(x())}}, yS(x())},
			"yielding-post-body-decl": {{K: "decl", Name: "j", E: lit(0)}, {K: "for", E: cmp("<", v("j"), lit(2)), Post: yS(bin("+", lit(40), v("j"))),
				Body: []*Stmt{evS(1, v("j")), {K: "incdec", Name: "j", Op: "++"}, decl("j", bin("*", v("j"), lit(100))), evS(2, v("j"))}}, yS(v("j"))},
			"yielding-post-outer-var": {{K: "decl", Name: "j", E: lit(0)}, {K: "for", E: cmp("<", v("j"), lit(2)), Post: yS(bin("+", x(), v("j"))),
				Body: []*Stmt{evS(1, v("j")), {K: "incdec", Name: "j", Op: "++"}, decl("x", lit(-7)), evS(2, x())}}, yS(x())},
			"yieldfrom-post-body-decl": {{K: "closure", Name: "g", Fn: &FuncLit{Gen: true, Elem: "int", Params: []Param{{"p", "int"}}, Body: []*Stmt{yS(v("p")), yS(bin("+", v("p"), lit(1)))}}},
				{K: "decl", Name: "j", E: lit(0)}, {K: "for", E: cmp("<", v("j"), lit(2)), Post: &Stmt{K: "yieldfrom", Iter: &IterExpr{K: "var", Name: "g", Args: []*Expr{x()}, Elem: "int"}},
					Body: []*Stmt{evS(1, v("j")), {K: "incdec", Name: "j", Op: "++"}, decl("x", bin("*", v("j"), lit(100))), evS(2, x())}}, yS(x())},
			"case-clause": {{K: "switch", E: bin("%", v("a"), lit(2)), Cases: []*Case{{Exprs: []*Expr{lit(0), lit(1)}, Body: []*Stmt{decl("x", bin("*", x(), lit(10))), yS(x())}}}}, yS(x())},
			"loop-body-each-iteration": {{K: "for", Init: &Stmt{K: "decl", Name: "i", E: lit(0)}, E: cmp("<", v("i"), lit(2)), Post: &Stmt{K: "incdec", Name: "i", Op: "++"},
				Body: []*Stmt{evS(1), decl("x", bin("+", x(), v("i"))), yS(x()), {K: "incdec", Name: "x", Op: "++"}}}, yS(x())},
			"second-half-of-combine": {{K: "if", E: cmp(">", v("a"), lit(0)), Body: []*Stmt{yS(lit(1))}}, {K: "block", Body: []*Stmt{decl("x", bin("*", x(), lit(10))), yS(x())}}, yS(x())},
			"decl-then-yielding-if": {decl("y", x()), {K: "if", E: cmp(">", v("a"), lit(0)), Body: []*Stmt{yS(v("y")), {K: "incdec", Name: "y", Op: "++"}}}, yS(bin("+", v("y"), x()))},
			"closure-sees-later-update": {{K: "closure", Name: "f", Fn: &FuncLit{Params: []Param{{"p", "int"}}, Result: "int", Body: []*Stmt{{K: "incdec", Name: "x", Op: "++"}}, Ret: bin("+", x(), v("p"))}},
				yS(&Expr{K: "call", Name: "f", Args: []*Expr{lit(0)}}), {K: "block", Body: []*Stmt{decl("x", lit(100)), yS(&Expr{K: "call", Name: "f", Args: []*Expr{x()}})}}, {K: "assign", Name: "x", Op: "=", E: lit(50)}, yS(&Expr{K: "call", Name: "f", Args: []*Expr{lit(0)}}), yS(x())},
		}
		if form == "" {
			// initialiser positions only allow :=
			sites["if-init"] = []*Stmt{{K: "if", Init: &Stmt{K: "decl", Name: "x", E: bin("*", x(), lit(10))}, E: cmp(">", x(), lit(0)), Body: []*Stmt{yS(x())}, HasElse: true, Else: []*Stmt{yS(bin("-", lit(0), x()))}}, yS(x())}
			sites["for-init"] = []*Stmt{{K: "for", Init: &Stmt{K: "decl", Name: "x", E: bin("*", x(), lit(10))}, E: cmp("<", x(), lit(200)), Post: &Stmt{K: "assign", Name: "x", Op: "+=", E: lit(90)}, Body: []*Stmt{evS(1, x()), yS(x())}}, yS(x())}
			sites["switch-init"] = []*Stmt{{K: "switch", Init: &Stmt{K: "decl", Name: "x", E: bin("*", x(), lit(10))}, Cases: []*Case{{Exprs: []*Expr{cmp(">", x(), lit(10))}, Body: []*Stmt{yS(x())}}, {Default: true, Body: []*Stmt{yS(bin("-", lit(0), x()))}}}}, yS(x())}
			sites["range-key"] = []*Stmt{{K: "range", Name: "x", Op: ":=", Coll: &Coll{Kind: "int", Lit: "2", KT: "int"}, Body: []*Stmt{evS(1), yS(x())}}, yS(x())}
			sites["range-value"] = []*Stmt{{K: "range", Name: "_", Name2: "x", Op: ":=", Coll: &Coll{Kind: "slice", Lit: "[]int{7, 8}", KT: "int", VT: "int"}, Body: []*Stmt{evS(1), yS(x()), {K: "incdec", Name: "x", Op: "++"}}}, yS(x())}
			sites["typeswitch-binding"] = []*Stmt{{K: "tswitch", Name: "x", Raw: "tr.Any(x * 6)", Cases: []*Case{{Types: []string{"int"}, Body: []*Stmt{yS(vt("x", "int"))}}, {Default: true, Body: []*Stmt{yS(lit(-1))}}}}, yS(x())}
			sites["range-assign-both-vars"] = []*Stmt{{K: "var", Name: "k", T: "int"}, {K: "var", Name: "e", T: "int"},
				{K: "closure", Name: "f", Fn: &FuncLit{Params: []Param{{"p", "int"}}, Result: "int", Ret: bin("+", bin("*", v("k"), lit(10)), v("e"))}},
				{K: "range", Name: "k", Name2: "e", Op: "=", Coll: &Coll{Kind: "slice", Lit: "[]int{7, 8, 9}", KT: "int", VT: "int"}, Body: []*Stmt{evS(1, v("k"), v("e")), yS(&Expr{K: "call", Name: "f", Args: []*Expr{lit(0)}}),
					{K: "if", E: cmp("==", v("e"), bin("+", lit(8), x())), Body: []*Stmt{{K: "break"}}}}},
				yS(bin("+", bin("*", v("k"), lit(100)), v("e"))), yS(&Expr{K: "call", Name: "f", Args: []*Expr{lit(0)}})}
			sites["range-assign-key-only"] = []*Stmt{{K: "var", Name: "k", T: "int"},
				{K: "range", Name: "k", Op: "=", Coll: &Coll{Kind: "int", Lit: "3", KT: "int"}, Body: []*Stmt{evS(1, v("k")), yS(v("k"))}}, yS(bin("+", v("k"), lit(100)))}
			sites["range-assign-value-only"] = []*Stmt{{K: "var", Name: "e", T: "rune"},
				{K: "range", Name: "_", Name2: "e", Op: "=", Coll: &Coll{Kind: "string", Lit: `"héy"`, KT: "int", VT: "rune"}, Body: []*Stmt{evS(1, vt("e", "rune")), yS(vt("e", "rune"))}}, yS(bin("+", vt("e", "rune"), lit(1000)))}
			sites["consumer-loop-var"] = []*Stmt{{K: "closure", Name: "g", Fn: &FuncLit{Gen: true, Elem: "int", Params: []Param{{"p", "int"}}, Body: []*Stmt{yS(v("p")), yS(bin("+", v("p"), lit(1)))}}},
				{K: "crange", Name: "x", Op: ":=", Iter: &IterExpr{K: "var", Name: "g", Args: []*Expr{x()}, Elem: "int"}, Body: []*Stmt{evS(1), {K: "decl", Name: "x", E: bin("*", x(), lit(2))}, yS(x())}}, yS(x())}
		}
		names := make([]string, 0, len(sites))
		for k := range sites {
			names = append(names, k)
		}
		sortStrings(names)
		for _, site := range names {
			n++
			name := fmt.Sprintf("V%03d", n)
			body := append([]*Stmt{{K: "decl", Name: "x", E: bin("+", v("a"), lit(1))}}, sites[site]...)
			f := form
			if f == "" {
				f = ":="
			}
			p := &Program{Name: name, Profile: "scoping-table", Tags: []string{"shadow", "site:" + site, "form:" + f}}
			p.Decls = []*Decl{{Kind: "gen", Name: name + "G", Params: []Param{{"a", "int"}}, Elem: "int", Body: body}}
			p.Entries = []*Entry{{Name: name + "G", Kind: "drive", Call: "$P" + name + "G($0)", Elem: "int", Inputs: allInputs(1, 0, 3), Scripts: []string{"std"}}}
			out = append(out, p)
		}
	}
	return out
}

func sortStrings(s []string) {
	for i := 1; i < len(s); i++ {
		for j := i; j > 0 && s[j] < s[j-1]; j-- {
			s[j], s[j-1] = s[j-1], s[j]
		}
	}
}
