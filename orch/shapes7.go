package main

// Fourth-session additions to the hand-written shape tables (type positions of the iterator type, C06/C11).
// They are appended to consumerShapes, so C06 runs them against the reference and C11 under all import styles.

func init() {
	consumerShapes = append(consumerShapes, typePositionShapes...)
	rangeShapes = append(rangeShapes, rangeShapes7...)
	rangeShapes = append(rangeShapes, scopingShapes...)
	delegationShapes = append(delegationShapes, delegationShapes7...)
	panicShapes = append(panicShapes, panicShapes7...)
	optimiserBait = append(optimiserBait, optimiserBait7...)
	bystanderShapes = append(bystanderShapes, bystanderShapes7...)
	injections = append(injections, injections7...)
	closureInGeneratorShapes = append(closureInGeneratorShapes, closureInGeneratorShapes7...)
}

// scopingShapes: hand-written scoping programs of C03 (appended to the scoping table; C04 runs them as range shapes too)
var scopingShapes = []shape{
	// the iteration variable of a range over an integer is a fresh variable per iteration (:=) / is assigned from a hidden
	// counter (=): writing it in the body never changes the iteration, closures keep the value of their iteration
	{name: "integer-range-variable-written-and-captured", decls: `
$GEN{$NG(a int)}{int}{
	for i := range 6 {
		$YIELD{i}
		i++
	}
	var fs []func() int
	for i := range 3 {
		fs = append(fs, func() int { return i })
		$YIELD{i}
		i += 7
	}
	for _, f := range fs {
		$YIELD{10 + f()}
	}
	for i := range a + 2 {
		i += 5
		$YIELD{i}
	}
	const n = 2
	var j int
	for j = range n {
		$YIELD{j}
		j += 10
	}
	$YIELD{j}
	var k int8
	for k = range 3 {
		k *= 2
		tr.Ev(1, int(k))
	}
	$YIELD{int(k)}
	$RET
}`, entries: []*Entry{drive("$NG", "int", 1, [][]int{{0}, {2}})}},
	// the body of a loop with a yielding post declares a TYPE / a constant / a function-typed variable named like a variable the
	// post reads
	{name: "loop-body-declares-type-and-const-named-like-variables-of-the-post", decls: `
$GEN{$NG(a int)}{int}{
	x, y := a, 10
	for i := 0; i < 2; $YIELD{x + y + i} {
		i++
		type x int
		const y = 1000
		var z x = x(y)
		tr.Ev(1, int(z))
	}
	for j := 0; j < 2; $YIELD{x*100 + j} {
		j++
		x := func() int { return j }
		tr.Ev(2, x())
	}
	$RET
}`, entries: []*Entry{drive("$NG", "int", 1, [][]int{{0}, {2}})}},
	// statement kinds the compiler keeps as they are, between yields: go statement (synchronised), send, receive, declarations
	// of types/constants/vars, swaps, op-assignments, inc/dec, labelled-free empty statements, calls of closures and methods
	{name: "plain-statement-kinds-between-yields", decls: `
type $NAcc struct{ n int }

func (c *$NAcc) Add(d int) *$NAcc { c.n += d; return c }

$GEN{$NG(a int)}{int}{
	ch := make(chan int, 1)
	done := make(chan struct{})
	$YIELD{a}
	go func() {
		ch <- a + 1
		close(done)
	}()
	<-done
	v, ok := <-ch
	$YIELD{v}
	ch <- v * 2
	type pair struct{ l, r int }
	const k = 3
	var (
		p  = pair{a, k}
		q  pair
		xs [k]int
	)
	q.l, q.r = p.r, p.l
	$YIELD{q.l*10 + q.r}
	xs[1] += <-ch
	xs[1] <<= 1
	xs[2]--
	;
	acc := &$NAcc{}
	acc.Add(xs[1]).Add(xs[2])
	$YIELD{acc.n}
	if ok {
		var iface interface{ Add(int) *$NAcc } = acc
		iface.Add(k)
	}
	func() { acc.n *= 2 }()
	$YIELD{acc.n}
	$RET
}`, entries: []*Entry{drive("$NG", "int", 1, [][]int{{0}, {2}})}},
	// the shortest loop bodies that declare something named like a variable the yielding post statement reads: two statements,
	// one statement, and a declaration as the ONLY statement
	{name: "short-loop-bodies-declaring-names-the-yielding-post-reads", decls: `
$GEN{$NG(a int)}{int}{
	for n := 0; n < 2; $YIELD{n + a} {
		n++
		const n = 100
	}
	for k := 0; k < 2; $YIELD{k * 10} {
		k++
		type k string
	}
	m := 0
	for m < 2 {
		m++
		for q := m; q < 2; $YIELD{q + 50} {
			q++
			const q = 7
		}
	}
	$RET
}`, entries: []*Entry{drive("$NG", "int", 1, [][]int{{0}, {2}})}},
	{name: "collection-range-variables-written-and-captured", decls: `
$GEN{$NG(a int)}{int}{
	xs := []int{a, a + 1, a + 2}
	var ps []*int
	for i, v := range xs {
		ps = append(ps, &v)
		v += 100
		i += 5
		$YIELD{v + i}
	}
	for _, p := range ps {
		$YIELD{*p}
	}
	var fs []func() string
	for i, c := range "héy" {
		fs = append(fs, func() string { return string(c) + "ab"[i%2:] })
		c++
		$YIELD{int(c)}
	}
	for _, f := range fs {
		$YIELD{len(f())}
	}
	m := map[string]int{"k": a}
	for k, v := range m {
		k += "x"
		v++
		$YIELD{len(k) + v}
	}
	$YIELD{m["k"]}
	$RET
}`, entries: []*Entry{drive("$NG", "int", 1, [][]int{{0}, {2}})}},
}

var typePositionShapes = []shape{
	// the constant operand of a partial redeclaration mentions a name that the SAME statement declares: `n, k := k+1, 7`
	// reads the constant k (the new variable k is only in scope after the statement)
	{name: "mixed-define-redeclared-constant-operand-names-a-variable-of-the-same-statement", decls: baseGen + `
const $Nk = 1

const $Nw = "ww"

$GEN{$NH(a int)}{int}{
	n := 0
	getn := func() int { return n }
	$YIELD{a}
	n, $Nk := $Nk+1, 7+a
	$YIELD{getn()*100 + n*10 + $Nk}
	var f float64
	f, $Nw, n := 0.5+float64(len($Nw)), len($Nw)*2, n+$Nk
	$YIELD{int(f*2)*100 + $Nw*10 + n + getn()}
	$RET
}`, entries: []*Entry{drive("$NH", "int", 1, nil)}},
	// an embedded field of the iterator type is called Iter (the name of the type), whatever the type is replaced by
	{name: "embedded-iterator-field", decls: baseGen + `
type $NBox struct {
	$SONLY{$ITER{int}}$RONLY{Iter $ITER{int}}
	n int
}

$RONLY{func (b *$NBox) MoveNext() bool { return b.Iter.MoveNext() }

func (b *$NBox) Current() int { return b.Iter.Current() }
}
type $NOuter struct {
	$NBox
	tag string
}

func $NC(a int) (res int) {
	b := $NBox{Iter: $NG(a), n: 1}
	for v := range $RANGE{b.Iter} {
		res = res*2 + v + b.n
		break
	}
	o := $NOuter{$NBox{$NG(a + 1), 2}, "t"}
	for v := range $RANGE{o.Iter} {
		res = res*2 + v + o.n
	}
	o.Iter = $NG(1)
	for v := range $RANGE{o.$NBox.Iter} {
		res += v
	}
	return
}

// embedded through an ALIAS that happens to be called like the API type: the field is named after the alias and keeps that name
type $NIterAlias = $ITER{int}

type $NABox struct {
	$NIterAlias
	n int
}

func $NE(a int) (res int) {
	b := $NABox{$NIterAlias: $NG(a), n: 3}
	for v := range $RANGE{b.$NIterAlias} {
		res = res*2 + v + b.n
	}
	return
}

// the embedded iterator's methods are promoted: pull-style code through the struct, and the struct is an iterator itself
type $NPuller interface {
	MoveNext() bool
	Current() int
}

func $NPull(p $NPuller) (res int) {
	for p.MoveNext() {
		res = res*2 + p.Current()
	}
	return
}

func $ND(a int) (res int) {
	c := &$NBox{Iter: $NG(a)}
	if c.MoveNext() {
		res = c.Current() + c.n
	}
	res = res*100 + $NPull(c)
	o := $NOuter{$NBox{$NG(a), 2}, "t"}
	next := o.MoveNext
	for next() {
		res += o.Current()
	}
	return
}`, entries: []*Entry{callEntry("$NC", 1, nil), callEntry("$ND", 1, nil), callEntry("$NE", 1, nil)}},
	// partial redeclarations whose re-used variable takes an untyped NON-constant value: comma-ok results, comparisons,
	// non-constant shifts get their type from the variable they are assigned to
	{name: "mixed-define-redeclared-typed-variable-with-untyped-nonconstant-value", decls: baseGen + `
type $NFlag bool

$GEN{$NH(a int)}{int}{
	var ok $NFlag
	var n uint8
	mp := map[int]int{1: 7}
	getok := func() bool { return bool(ok) }
	$YIELD{0}
	v, ok := mp[a]
	$YIELD{v}
	if getok() {
		$YIELD{100}
	}
	lt, ok := a < 2, a > 0
	if lt && getok() {
		$YIELD{101}
	}
	s := uint(a)
	n, m := 1<<s, 2
	$YIELD{int(n) + m}
	var e error
	var x any = a
	w, e := x.(int), nil
	if e == nil {
		$YIELD{w + 200}
	}
	$RET
}`, entries: []*Entry{drive("$NH", "int", 1, nil)}},
	// user closures over the methods of an iterator VARIABLE that is re-assigned afterwards: they must follow the variable
	{name: "closures-over-methods-of-a-reassigned-iterator-variable", decls: baseGen + `
func $NC(a int) (res int) {
	it := $NG(a)
	next := func() bool { return it.MoveNext() }
	cur := func() int { return it.Current() }
	n := 0
	for next() {
		res = res*3 + cur()
		n++
		if n == 2 {
			it = $NG(a + 10)
		}
	}
	return
}

func $NDrainBoth(x, y $ITER{int}) (res int) {
	it := x
	more := func() bool { return it.MoveNext() }
	for more() {
		res = res*2 + it.Current()
	}
	it = y
	for more() {
		res = res*2 + it.Current()
	}
	return
}

func $ND(a int) int { return $NDrainBoth($NG(a), $NG(a+1)) }
`, entries: []*Entry{callEntry("$NC", 1, nil), callEntry("$ND", 1, nil)}},
	// the range expression is evaluated ONCE, also when it is a field path and the body changes what the path denotes
	{name: "range-over-a-field-path-the-body-reassigns", decls: baseGen + `
type $NHolder struct {
	it   $ITER{int}
	next *$NHolder
}

var $NGlobal $ITER{int}

func $NC(a int) (res int) {
	h := &$NHolder{it: $NG(a)}
	n := 0
	for v := range $RANGE{h.it} {
		res = res*3 + v
		if n++; n == 2 {
			h.it = $NG(a + 10)
		}
	}
	node := &$NHolder{it: $NG(a), next: &$NHolder{it: $NG(a + 20)}}
	for v := range $RANGE{node.it} {
		res = res*3 + v%7
		node = node.next
		if node == nil {
			break
		}
	}
	$NGlobal = $NG(1)
	for v := range $RANGE{$NGlobal} {
		res += v
		$NGlobal = $NG(5)
	}
	return
}

$GEN{$NW(a int)}{int}{
	h := &$NHolder{it: $NG(a)}
	n := 0
	for v := range $RANGE{h.it} {
		$YIELD{v}
		if n++; n == 1 {
			h.it = $NG(a + 10)
		}
	}
	$YFROM{h.it}
	$RET
}`, entries: []*Entry{callEntry("$NC", 1, nil), drive("$NW", "int", 1, nil)}},
	{name: "method-generator-on-generic-type", decls: `
type $NBox[T any] struct {
	xs  []T
	pos int
}

$GEN{(b *$NBox[T]) Items(from int)}{T}{
	for i := from; i < len(b.xs); i++ {
		b.pos = i
		tr.Ev(900, i)
		$YIELD{b.xs[i]}
	}
	$RET
}

$GEN{(b $NBox[T]) Pairs()}{[2]T}{
	for i := 0; i+1 < len(b.xs); i++ {
		$YIELD{[2]T{b.xs[i], b.xs[i+1]}}
	}
	$RET
}

func $NC(a int) (res int) {
	b := &$NBox[int]{xs: []int{a, a + 1, a + 2, a + 3}}
	for v := range $RANGE{b.Items(a % 3)} {
		res = res*3 + v + b.pos
		if v > a+1 {
			break
		}
	}
	s := $NBox[string]{xs: []string{"x", "yy", "zzz"}}
	for p := range $RANGE{s.Pairs()} {
		res = res*2 + len(p[0]) + 10*len(p[1])
	}
	return
}`, entries: []*Entry{callEntry("$NC", 1, nil)}},
	{name: "generic-consumers-and-combinators", decls: baseGen + `
func $NCollect[T any](it $ITER{T}) (out []T) {
	for v := range $RANGE{it} {
		out = append(out, v)
	}
	return
}

$GEN{$NTake[T any](it $ITER{T}, n int)}{T}{
	if n <= 0 {
		$RET
	}
	for v := range $RANGE{it} {
		$YIELD{v}
		n--
		if n == 0 {
			break
		}
	}
	$RET
}

$GEN{$NChain[T any](its ...$ITER{T})}{T}{
	for i, it := range its {
		tr.Ev(902, i)
		$YFROM{it}
	}
	$RET
}

$GEN{$NMap[T, U any](it $ITER{T}, f func(T) U)}{U}{
	for v := range $RANGE{it} {
		$YIELD{f(v)}
	}
	$RET
}

func $NC(a int) (res int) {
	xs := $NCollect($NTake($NChain($NG(a), $NG(a+5)), 4))
	for _, x := range xs {
		res = res*3 + x
	}
	ys := $NCollect[string]($NMap($NTake[int]($NG(a), 2), func(v int) string { return "ab"[:v%3] }))
	for _, y := range ys {
		res = res*2 + len(y)
	}
	zs := $NCollect($NChain[int]())
	return res*10 + len(zs)
}`, entries: []*Entry{callEntry("$NC", 1, nil)}},
	{name: "named-func-types-and-method-values", decls: baseGen + `
type $NMk func(int) $ITER{int}

type $NXf func($ITER{int}) $ITER{int}

type $NT struct{ base int }

$GEN{(t $NT) Vals(n int)}{int}{
	for i := 0; i < n; i++ {
		$YIELD{t.base + i}
	}
	$RET
}

$GEN{$NSkip1(it $ITER{int})}{int}{
	first := true
	for v := range $RANGE{it} {
		if first {
			first = false
			continue
		}
		$YIELD{v}
	}
	$RET
}

func $NC(a int) (res int) {
	var mk $NMk = $NG
	var xf $NXf = $NSkip1
	t := $NT{base: a}
	mv := t.Vals
	me := $NT.Vals
	t.base = 100
	for v := range $RANGE{xf(mk(a))} {
		res = res*3 + v
	}
	for v := range $RANGE{mv(2)} {
		res = res*3 + v
	}
	for v := range $RANGE{me(t, 2)} {
		res = res*3 + v%7
	}
	fs := map[string]func(int) $ITER{int}{"g": $NG, "v": t.Vals}
	for v := range $RANGE{fs["v"](1)} {
		res += v
	}
	return
}`, entries: []*Entry{callEntry("$NC", 1, nil)}},
	{name: "pointer-array-new-make-of-iterators", decls: baseGen + `
func $NDrain(p *$ITER{int}) (s int) {
	for $SONLY{p.MoveNext()}$RONLY{(*p).MoveNext()} {
		s = s*2 + $SONLY{p.Current()}$RONLY{(*p).Current()}
	}
	return
}

func $ND(a int) int {
	it := $NG(a)
	next := $SONLY{(&it).MoveNext}$RONLY{it.MoveNext}
	next()
	return $NDrain(&it)
}

func $NC(a int) (res int) {
	p := new($ITER{int})
	*p = $NG(a)
	arr := [2]$ITER{int}{$NG(a), $NG(a + 1)}
	m := make(map[int]$ITER{int}, 2)
	m[7] = $NG(a + 2)
	s := make([]$ITER{int}, 0, 2)
	s = append(s, arr[1], m[7])
	var pp **$ITER{int}
	pp = &p
	for v := range $RANGE{(**pp)} {
		res = res*2 + v
		break
	}
	for v := range $RANGE{(*p)} {
		res = res*2 + v
	}
	for i := range s {
		for v := range $RANGE{s[i]} {
			res = res*2 + v + i
			if i == 0 {
				break
			}
		}
	}
	for v := range $RANGE{arr[1]} {
		res = res*2 + v
	}
	return
}`, entries: []*Entry{callEntry("$NC", 1, nil), callEntry("$ND", 1, nil)}},
	{name: "type-switch-and-assertion-on-iterator-types", decls: baseGen + `
$GEN{$NS(a int)}{string}{
	$YIELD{"s"}
	if a > 1 {
		$YIELD{"tt"}
	}
	$RET
}

func $NSum(x any) (res int) {
	switch it := x.(type) {
	case $ITER{int}:
		for v := range $RANGE{it} {
			res = res*2 + v
		}
	case $ITER{string}:
		for v := range $RANGE{it} {
			res = res*2 + len(v) + 100
		}
	case []$ITER{int}:
		for _, e := range it {
			res += $NSum(e)
		}
	case func(int) $ITER{int}:
		res = $NSum(it(1)) + 1000
	default:
		res = -1
	}
	return
}

func $NC(a int) (res int) {
	res = $NSum($NG(a))*7 + $NSum($NS(a))*5 + $NSum([]$ITER{int}{$NG(a), $NG(1)})*3 + $NSum($NG) + $NSum(a)
	var x any = $NS(a)
	if _, ok := x.($ITER{int}); ok {
		res += 100000
	}
	if it, ok := x.($ITER{string}); ok {
		for v := range $RANGE{it} {
			res += len(v)
		}
	}
	return
}`, entries: []*Entry{callEntry("$NC", 1, nil)}},
	{name: "multi-result-channel-directions-anonymous-struct", decls: baseGen + `
func $NTwo(a int) ($ITER{int}, $ITER{int}, bool) {
	return $NG(a), $NG(a + 1), a%2 == 0
}

func $NFeed(out chan<- $ITER{int}, a int) {
	out <- $NG(a)
	out <- $NG(a + 3)
	close(out)
}

func $NDrain(in <-chan $ITER{int}) (res int) {
	for it := range in {
		for v := range $RANGE{it} {
			res = res*2 + v
		}
	}
	return
}

func $NC(a int) (res int) {
	x, y, ok := $NTwo(a)
	if ok {
		x, y = y, x
	}
	st := struct {
		it $ITER{int}
		mk func() $ITER{int}
	}{it: x, mk: func() $ITER{int} { return y }}
	for v := range $RANGE{st.it} {
		res = res*2 + v
		for w := range $RANGE{st.mk()} {
			res = res*2 + w
			break
		}
	}
	ch := make(chan $ITER{int}, 2)
	$NFeed(ch, a)
	return res*10 + $NDrain(ch)
}`, entries: []*Entry{callEntry("$NC", 1, nil)}},
	{name: "labelled-consumer-loops-over-iterators", decls: baseGen + `
func $NC(a int) (res int) {
outer:
	for v := range $RANGE{$NG(a)} {
		tr.Ev(1, v)
	inner:
		for w := range $RANGE{$NG(v)} {
			tr.Ev(2, w)
			switch {
			case w == v+1 && v == a:
				continue outer
			case w == v+2:
				break inner
			case v == a+2:
				break outer
			}
			res = res*3 + w
		}
		res = res*3 + v
	}
	return
}`, entries: []*Entry{callEntry("$NC", 1, nil)}},
	{name: "generator-literals-in-type-positions", decls: `
type $NReg struct {
	mk map[string]func(int) $ITER{int}
}

func $NC(a int) (res int) {
	var mk func(int) $ITER{int} = $GEN{(n int)}{int}{
		for i := 0; i < n; i++ {
			tr.Ev(900, i)
			$YIELD{i * i}
		}
		$RET
	}
	r := $NReg{mk: map[string]func(int) $ITER{int}{
		"sq": mk,
		"neg": $GEN{(n int)}{int}{
			$YFROM{mk(n)}
			$YIELD{-n}
			$RET
		},
	}}
	its := []$ITER{int}{r.mk["sq"](a), r.mk["neg"](a)}
	for i, it := range its {
		for v := range $RANGE{it} {
			res = res*2 + v + i
		}
	}
	res += func(it $ITER{int}) (n int) {
		for range $RANGE{it} {
			n++
		}
		return
	}(r.mk["neg"](2))
	return
}`, entries: []*Entry{callEntry("$NC", 1, nil)}},
	{name: "iterator-in-interface-method-signatures-and-embedding", decls: baseGen + `
type $NSource interface {
	Open(a int) $ITER{int}
}

type $NSink interface {
	Put(it $ITER{int}) int
}

type $NBoth interface {
	$NSource
	$NSink
}

type $NImpl struct{ total int }

func (m *$NImpl) Open(a int) $ITER{int} { return $NG(a) }

func (m *$NImpl) Put(it $ITER{int}) int {
	for v := range $RANGE{it} {
		m.total += v
	}
	return m.total
}

type $NOuter struct {
	$NBoth
	extra []func($NSource) $ITER{int}
}

func $NC(a int) (res int) {
	o := $NOuter{$NBoth: &$NImpl{}}
	o.extra = append(o.extra, func(s $NSource) $ITER{int} { return s.Open(a + 1) })
	res = o.Put(o.Open(a))
	for _, f := range o.extra {
		res = res*2 + o.Put(f(o))
	}
	return
}`, entries: []*Entry{callEntry("$NC", 1, nil)}},
}

// ---- range loops (C04/C10/C11) ---------------------------------------------------------------------

var rangeShapes7 = []shape{
	// Go does not evaluate the range expression when at most one iteration variable is present and len(x) is constant
	// (arrays and pointers to arrays without function calls / channel receives in the expression)
	{name: "key-only-range-over-array-behind-nil-pointer", imports: []string{`"unsafe"`}, decls: `
type $NS struct{ A [3]int }

$GEN{$NG(a int)}{int}{
	var p *$NS
	if a > 2 {
		p = &$NS{A: [3]int{7, 8, 9}}
	}
	for i := range p.A {
		tr.Ev(1, i)
		$YIELD{i + a}
	}
	var q *[2]string
	n := 0
	for range *q {
		n++
	}
	for i := range len(*q) {
		n += i
	}
	$YIELD{n}
	var grid *[2][3]int
	for i := range grid[1] {
		$YIELD{100 + i}
	}
	for i := range (p.A) {
		$YIELD{200 + i}
	}
	var arrs [][2]int
	k := int8(5)
	for i := range arrs[int(k)] {
		$YIELD{500 + i}
	}
	for i := range arrs[len("abcdefgh")] {
		$YIELD{510 + i}
	}
	for i := range (*$NS)(unsafe.Pointer(p)).A {
		$YIELD{520 + i}
	}
	for i := range *(*[2]int)(nil) {
		$YIELD{530 + i}
	}
	var hs []*$NS
	for i := range hs[min(1, 2)].A {
		$YIELD{540 + i}
	}
	rows := make(chan [2]int, 2)
	rows <- [2]int{a, a}
	rows <- [2]int{5, 6}
	for i := range <-rows {
		$YIELD{300 + i + len(rows)}
	}
	for i, e := range <-rows {
		$YIELD{400 + i + e}
	}
	$RET
}`, entries: []*Entry{drive("$NG", "int", 1, [][]int{{0}, {3}})}},
	{name: "constant-bound-with-iteration-variable-of-a-local-named-type", decls: `
$GEN{$NG(a int)}{int}{
	type T int8
	var i T
	for i = range 3 {
		$YIELD{int(i) + a}
	}
	type U = uint16
	var j U
	for j = range 2 {
		$YIELD{int(j) * 10}
	}
	for k := range T(2) {
		$YIELD{int(k) + 50}
	}
	$YIELD{int(i) + int(j)}
	$RET
}`, entries: []*Entry{drive("$NG", "int", 1, [][]int{{0}, {1}})}},
	// a constant bound takes the type of the iteration variable; that type cannot always be spelled where the iterator is made
	{name: "constant-bound-with-iteration-variable-of-a-type-that-cannot-be-spelled", imports: []string{`"time"`}, decls: `
type $NGI[T any] int

type $NT8 uint8

$GEN{$NG(a int)}{int}{
	var gi $NGI[string]
	for gi = range 3 {
		$YIELD{int(gi) + a}
	}
	var i8 $NT8
	{
		type $NT8 string
		var s $NT8 = "x"
		for i8 = range 2 {
			$YIELD{int(i8) + len(s)}
		}
	}
	var r int
	for r = range 'c' - 'a' {
		$YIELD{r + 10}
	}
	var u uint8
	{
		uint8 := 7
		for u = range 2 {
			$YIELD{int(u) + uint8}
		}
	}
	var d time.Duration
	{
		time := 5
		for d = range 3 {
			$YIELD{int(d) + time}
		}
	}
	lv := tr.Lv(0)
	for lv = range 2 {
		$YIELD{lv.Int() + 20}
	}
	for l := range tr.MaxLevel {
		$YIELD{l.Int() + 30}
	}
	for k := range $NGI[int](2) {
		$YIELD{int(k) + 40}
	}
	var box any
	for box = range 2 {
		$YIELD{box.(int) + 60}
	}
	$YIELD{box.(int)}
	$YIELD{int(gi) + int(i8) + r + int(u) + int(d) + lv.Int()}
	$RET
}`, entries: []*Entry{drive("$NG", "int", 1, [][]int{{0}, {1}})}},
	// a bound that is the LARGEST value of a narrow integer type: the loop runs 0..n-1 and ends (a counter that has to run one past
	// the bound wraps around instead)
	{name: "integer-range-up-to-the-largest-value-of-a-narrow-type", decls: `
type $NLevel uint8

$GEN{$NG(a int)}{int}{
	var top uint8 = 255
	cnt := 0
	for i := range top {
		cnt++
		if i < 2 || i > 252 {
			$YIELD{int(i)}
		}
	}
	$YIELD{cnt}
	cnt = 0
	for i := range int8(127) {
		cnt += int(i) % 3
	}
	$YIELD{cnt}
	var lvl $NLevel
	cnt = 0
	for lvl = range 255 {
		cnt++
	}
	$YIELD{cnt*1000 + int(lvl)}
	cnt = 0
	for range uint16(65535) {
		cnt++
	}
	$YIELD{cnt + a}
	$RET
}`, entries: []*Entry{{Name: "$NG", Kind: "drive", Call: "$P$NG($0)", Elem: "int", Inputs: [][]int{{0}}, Scripts: []string{"std"}, Fuel: 100000}}},
	{name: "range-over-rows-of-unaddressable-arrays", decls: `
func $NBoard(a int) [2][3]int { return [2][3]int{{a, 1, 2}, {3, 4, a}} }

$GEN{$NG(a int)}{int}{
	saved := map[string][2][3]int{"x": $NBoard(a)}
	for i := 0; i < 2; i++ {
		for j, v := range $NBoard(a)[i] {
			$YIELD{v*10 + j}
		}
		for _, v := range saved["x"][i] {
			$YIELD{v}
		}
	}
	for _, v := range [2][2]int{{1, 2}, {a, 4}}[1] {
		$YIELD{v}
	}
	type W struct{ rows [2][2]int }
	mk := func() W { return W{rows: [2][2]int{{5, 6}, {7, a}}} }
	for _, v := range mk().rows[1] {
		$YIELD{v}
	}
	$RET
}`, entries: []*Entry{drive("$NG", "int", 1, [][]int{{0}, {2}})}},
}

// ---- C13/C07 bystanders ---------------------------------------------------------------------------

var bystanderShapes7 = []shape{
	// (a shape `defer func() any { return rec() }()` with rec calling recover() was tried and dropped: whether the closure's
	// frame counts as "the deferred function" depends on the inliner of the Go toolchain itself - with default flags the panic is
	// recovered in the SOURCE too, with -gcflags=-l it is not - so native Go is no stable oracle for it, see DESIGN section 16)
	{name: "eta-immediately-invoked-and-go-statement-closures", tags: []string{"eta-shape"}, decls: byGen + `
func $NInc(x int) int { return x + 1 }

func $NNow() int { return 7 }

func $NB(a int) (res int) {
	res = func(x int) int { return $NInc(x) }(a)
	done := make(chan int, 1)
	go func() { done <- func() int { return $NNow() }() }()
	res = res*10 + <-done
	defer func() { res += func() int { return $NNow() }() }()
	return
}`, entries: []*Entry{callEntry("$NB", 1, nil)}},
	// side-effect imports: two neighbours and one apart (the static oracle sideEffectImportsKept compares the import sets)
	{name: "side-effect-imports", imports: []string{`_ "crypto/sha256"`, `_ "crypto/sha512"`, `_ "image/png"`, `"image"`}, decls: byGen + `
func $NB(a int) int {
	return a + image.Pt(a, 1).Y
}`, entries: []*Entry{callEntry("$NB", 1, nil)}},
	{name: "eta-parameter-types-chan-map-func-struct", tags: []string{"eta-shape"}, decls: byGen + `
type $NCfg struct{ n int }

func $NUse(c chan int, m map[string][]int, f func(int) int, s $NCfg, p *$NCfg, arr [2]int, i interface{ Len() int }) int {
	return len(c) + len(m) + f(s.n) + p.n + arr[1]
}

func $NB(a int) int {
	g := func(c chan int, m map[string][]int, f func(int) int, s $NCfg, p *$NCfg, arr [2]int, i interface{ Len() int }) int {
		return $NUse(c, m, f, s, p, arr, i)
	}
	c := make(chan int, 2)
	c <- 1
	return g(c, map[string][]int{"k": nil}, func(x int) int { return x + a }, $NCfg{2}, &$NCfg{3}, [2]int{4, 5}, nil)
}`, entries: []*Entry{callEntry("$NB", 1, nil)}},
	// a variadic literal that passes its slice parameter as ONE argument: with `...any` the types of literal and callee are
	// identical, the meaning is not (f(xs) packs the slice into a one-element slice)
	{name: "eta-variadic-literal-passing-the-slice-as-one-argument", tags: []string{"eta-shape"}, imports: []string{`"fmt"`}, decls: byGen + `
func $NCount(xs ...any) int { return len(xs) }

func $NFirst[T any](xs ...T) T { return xs[0] }

func $NB(a int) int {
	show := func(args ...any) string { return fmt.Sprint(args) }
	c := func(xs ...any) int { return $NCount(xs) }
	f := func(xs ...any) any { return $NFirst[any](xs) }
	_, isSlice := f(a, 2).([]any)
	n := 0
	if isSlice {
		n = 100
	}
	return len(show(a, 2, "x"))*1000 + c(a, 2, 3)*10 + n
}`, entries: []*Entry{callEntry("$NB", 1, nil)}},
	// directives on the specs of a parenthesised declaration group, in a file whose generator is a function LITERAL (its attached
	// source makes the file carry a comment list, and with a comment list the printer ignores doc comments): the embedded
	// variable is the file itself (every rendering of the package has a p.go)
	{name: "directives-on-grouped-declarations", imports: []string{`_ "embed"`}, decls: `
var (
	// $NSrc is filled in by the go command.
	//go:embed p.go
	$NSrc string

	//go:embed p.go
	$NRaw []byte
)

var $NLit = $GEN{(a int)}{int}{
	$YIELD{a}
	$RET
}

func $NB(a int) int {
	n := 0
	if len($NSrc) > 0 && len($NRaw) == len($NSrc) {
		n = 1
	}
	return a*10 + n
}`, entries: []*Entry{callEntry("$NB", 1, nil)}},
	// terms written by hand over the runtime API in a processed file: the optimiser's Delay elision must leave them alone when
	// an argument of the combinator call does something (it would run when the term is BUILT instead of when the block runs)
	{name: "hand-written-seq-terms-next-to-generators", tags: []string{"eta-shape"}, imports: []string{`hs "github.com/goghcrow/go-co/seq"`}, decls: byGen + `
var $NLog []string

func $NMkCond(n *int) func() bool {
	$NLog = append($NLog, "mkCond")
	return func() bool { *n--; return *n >= 0 }
}

func $NManual(n *int) hs.Iterator[int] {
	return hs.Start(hs.Delay(func() hs.Seq[int] {
		return hs.While($NMkCond(n), hs.Bind(1, func() hs.Seq[int] { return hs.Normal[int]() }))
	}))
}

func $NBody(k *int) hs.Seq[int] {
	*k++
	return hs.Bind(*k, func() hs.Seq[int] { return hs.Normal[int]() })
}

func $NHand() hs.Iterator[int] {
	i, k := 0, 0
	return hs.Start(hs.While(func() bool { i++; return i <= 3 },
		hs.Delay(func() hs.Seq[int] {
			return hs.Combine($NBody(&k), hs.Normal[int]())
		})))
}

func $NLazy(v *int) hs.Iterator[int] {
	return hs.Start(hs.Delay(func() hs.Seq[int] {
		return hs.Delay(func() hs.Seq[int] { return hs.Bind(*v, hs.Normal[int]) })
	}))
}

func $NB(a int) (res int) {
	$NLog = nil
	n := 2
	it := $NManual(&n)
	res = len($NLog)
	for it.MoveNext() {
		res = res*10 + it.Current()
	}
	res = res*10 + len($NLog)
	for h := $NHand(); h.MoveNext(); {
		res = res*10 + h.Current()
	}
	v := a
	lz := $NLazy(&v)
	v += 5
	for lz.MoveNext() {
		res = res*10 + lz.Current()
	}
	return
}`, entries: []*Entry{callEntry("$NB", 1, nil)}},
	// a closure over a method of an interface variable that is NEVER assigned and nil at run time: the method value s.Get panics
	// when it is evaluated, the closure only when it is called - if it is called at all
	{name: "eta-method-of-a-never-assigned-nil-interface", tags: []string{"eta-shape"}, decls: byGen + `
type $NI interface{ Get(int) int }

func $NUse(s $NI, a int) (res int) {
	defer func() {
		if r := recover(); r != nil {
			res = -res - 1
		}
	}()
	g := func(x int) int { return s.Get(x) }
	res = 10
	if a > 2 {
		res = g(a)
	}
	return
}

func $NB(a int) int {
	var s $NI
	h := func(x int) int { return s.Get(x) }
	_ = h
	return $NUse(nil, a)*100 + $NUse(s, a+1)
}`, entries: []*Entry{callEntry("$NB", 1, nil)}},
	{name: "range-over-func-outside-generators", decls: byGen + `
func $NSeq(n int) func(func(int) bool) {
	return func(y func(int) bool) {
		for i := 0; i < n; i++ {
			if !y(i) {
				return
			}
		}
	}
}

func $NB(a int) (res int) {
	for v := range $NSeq(a + 2) {
		if v == 3 {
			break
		}
		res = res*3 + v
	}
	f := func() {
		for v := range $NSeq(2) {
			res += v
		}
	}
	f()
	return
}`, entries: []*Entry{callEntry("$NB", 1, nil)}},
}

// ---- C12 injections / negative controls -------------------------------------------------------------

const seqFuncDecl = "func $NSeq(n int) func(func(int) bool) {\n\treturn func(y func(int) bool) {\n\t\tfor i := 0; i < n; i++ {\n\t\t\tif !y(i) {\n\t\t\t\treturn\n\t\t\t}\n\t\t}\n\t}\n}"

var injections7 = []injection{
	// range over a NIL pointer to an array with at most one iteration variable: Go does not evaluate *p (len is constant) and
	// produces 0..N-1; rejected today (yield in a range that stays native) - whoever starts accepting it has to keep that
	{name: "range-over-nil-pointer-to-array-key-only", stmt: "var np *[3]int\n\tfor i := range np {\n\t\t$YIELD{i * 10}\n\t}"},
	{name: "range-over-nil-pointer-to-array-no-variables", stmt: "var np *[2]int\n\tn := 0\n\tfor range np {\n\t\tn++\n\t\t$YIELD{n}\n\t}"},
	{name: "range-over-nil-pointer-to-array-key-only-trivial", stmt: "var np *[3]int\n\tfor i := range np {\n\t\ttr.Ev(1, i)\n\t}"},
	// defer in positions where NO yield follows it in the source text but more of the generator runs after it at run time
	// (the next iteration, the code after the enclosing if/switch): in the bare host nothing follows the injected statement
	{name: "defer-at-end-of-yielding-loop-body", stmt: "for i := 0; i < 2; i++ {\n\t\t$YIELD{i}\n\t\tdefer tr.Ev(1, i)\n\t}"},
	{name: "defer-in-if-after-yield-then-plain-code", stmt: "$YIELD{5}\n\tif a >= 0 {\n\t\tdefer tr.Ev(1, a)\n\t}\n\ttr.Ev(2)"},
	{name: "defer-in-switch-case-after-yield-then-plain-code", stmt: "$YIELD{5}\n\tswitch {\n\tcase a >= 0:\n\t\tdefer tr.Ev(1, a)\n\t}\n\ttr.Ev(2)"},
	{name: "defer-as-last-statement-after-yield", stmt: "$YIELD{5}\n\tdefer tr.Ev(1, a)"},
	{name: "defer-first-then-yielding-loop", stmt: "defer tr.Ev(1, a)\n\tfor i := 0; i < 2; i++ {\n\t\t$YIELD{i}\n\t}"},
	{name: "two-defers-around-a-yield-lifo", stmt: "defer tr.Ev(1, a)\n\t$YIELD{5}\n\tdefer tr.Ev(2, a)"},
	{name: "range-over-func-trivial", stmt: "for v := range $NSeq(2) {\n\t\ttr.Ev(1, v)\n\t}", decls: seqFuncDecl},
	{name: "control-range-over-func-in-closure", control: true, stmt: "func() {\n\t\tfor v := range $NSeq(3) {\n\t\t\tif v == 2 {\n\t\t\t\tbreak\n\t\t\t}\n\t\t\ttr.Ev(1, v)\n\t\t}\n\t}()", decls: seqFuncDecl},
	{name: "control-goto-over-range-loop-in-closure", control: true, stmt: "func() {\n\t\tif a >= 1 {\n\t\t\tgoto done\n\t\t}\n\t\tfor i, v := range []int{5, 6} {\n\t\t\ttr.Ev(1, i, v)\n\t\t}\n\t\tfor i := range 2 {\n\t\t\ttr.Ev(2, i)\n\t\t}\n\tdone:\n\t\ttr.Ev(3)\n\t}()"},
	{name: "control-labelled-loops-over-collections-in-closure", control: true, stmt: "func() {\n\touter:\n\t\tfor i := range 3 {\n\t\t\tfor _, c := range \"ab\" {\n\t\t\t\tif i == 1 {\n\t\t\t\t\tcontinue outer\n\t\t\t\t}\n\t\t\t\tif i == 2 && c == 'b' {\n\t\t\t\t\tbreak outer\n\t\t\t\t}\n\t\t\t\ttr.Ev(1, i, int(c))\n\t\t\t}\n\t\t}\n\t}()"},
}

// ---- closures in generators / conditions (C13, C11, C01) ---------------------------------------------

var closureInGeneratorShapes7 = []shape{
	// closures over the methods of an iterator variable inside a generator; the variable is re-assigned afterwards
	{name: "closures-over-methods-of-a-reassigned-iterator-variable-in-a-generator", decls: `
$GEN{$NSrc(a int)}{int}{
	for i := 0; i < 3; i++ {
		tr.Ev(900, a, i)
		$YIELD{a + i}
	}
	$RET
}

$GEN{$NChain(a int)}{int}{
	it := $NSrc(a)
	more := func() bool { return it.MoveNext() }
	for more() {
		$YIELD{it.Current()}
	}
	it = $NSrc(a + 10)
	for more() {
		$YIELD{it.Current()}
	}
	var late $ITER{int}
	peek := func() bool { return late.MoveNext() }
	late = $NSrc(a + 20)
	if peek() {
		$YIELD{late.Current()}
	}
	$RET
}`, entries: []*Entry{drive("$NChain", "int", 1, [][]int{{0}, {2}})}},
	// unreachable statements after break / continue still count as uses of the variables they mention (go vet flags them,
	// the compiler accepts them): dropping them must not leave a variable unused
	{name: "dead-code-after-break-and-continue-is-the-only-use-of-a-variable", decls: `
$GEN{$NG(a int)}{int}{
	for i := 0; i < 3; i++ {
		x := i * 2
		false := x >= 0 // (a local that shadows the predeclared false: the dead code must stay dead)
		_ = false
		$YIELD{i}
		continue
		tr.Ev(1, x)
	}
	y := a
	for {
		$YIELD{100 + a}
		break
		tr.Ev(2, y)
		y++
	}
	for j := 0; j < 2; j++ {
		z := j
		if j == 1 {
			break
			tr.Ev(3, z)
		}
		$YIELD{200 + j}
	}
	$RET
}`, entries: []*Entry{drive("$NG", "int", 1, [][]int{{0}, {2}})}},
	// a three-clause loop WITHOUT a yield, written directly in a generator: it stays a native loop, so its variable is
	// per-iteration (go >= 1.22 sources) like in any other function
	{name: "per-iteration-variable-of-a-yield-free-loop-in-the-generator-itself", decls: `
$GEN{$NG(a int)}{int}{
	var fs []func() int
	for i := 0; i < 3; i++ {
		fs = append(fs, func() int { return i + a })
	}
	for _, f := range fs {
		$YIELD{f()}
	}
	var ps []*int
	for j := a; j < a+2; j++ {
		ps = append(ps, &j)
	}
	for _, p := range ps {
		$YIELD{*p}
	}
	var gs []func() $ITER{int}
	for k := 0; k < 2; k++ {
		gs = append(gs, $GEN{()}{int}{
			$YIELD{k * 10}
			$RET
		})
	}
	for _, g := range gs {
		$YFROM{g()}
	}
	$RET
}`, entries: []*Entry{drive("$NG", "int", 1, [][]int{{0}, {2}})}},
	{name: "conditions-of-named-bool-types", decls: `
type $NB bool

func $NOk(i, n int) $NB { return $NB(i < n) }

$GEN{$NG(a int)}{int}{
	for i := 0; $NOk(i, a); i++ {
		$YIELD{i}
	}
	j := 0
	for $NOk(j, 2) {
		j++
		$YIELD{j * 10}
	}
	var flag $NB = a > 1
	if flag {
		$YIELD{100}
	} else if !flag && $NOk(a, 1) {
		$YIELD{101}
	}
	switch flag {
	case true:
		$YIELD{200}
	case $NOk(5, a):
		$YIELD{201}
	}
	for k := 0; flag; k++ {
		$YIELD{300 + k}
		flag = $NOk(k, 1)
	}
	$RET
}

$GEN{$NT[B ~bool](b B, a int)}{int}{
	for b {
		$YIELD{a}
		b = false
	}
	for i := 0; b || B(i < a); i++ {
		$YIELD{400 + i}
	}
	$RET
}`, entries: []*Entry{drive("$NG", "int", 1, nil), {Name: "$NT", Kind: "drive", Call: "$P$NT(true, $0)", Elem: "int", Inputs: allInputs(1, 0, 3), Scripts: []string{"std"}},
		{Name: "$NTb", Kind: "drive", Call: "$P$NT($P$NB(false), $0)", Elem: "int", Inputs: allInputs(1, 0, 3), Scripts: []string{"std"}}}},
}

// ---- delegation (C05) ------------------------------------------------------------------------------

var delegationShapes7 = []shape{
	// statements the compiler leaves as they are (yield-free native loops with their own break/continue, switches with break,
	// closures) in front of / between / inside the loop around a delegation: whatever they do, the delegation that follows runs
	{name: "yieldfrom-after-native-statements-with-their-own-break-continue", tags: []string{"yieldfrom"}, decls: `
$GEN{$NPart(a, n int)}{int}{
	for i := 0; i < n; i++ {
		tr.Ev(900, a, i)
		$YIELD{a*10 + i}
	}
	$RET
}

func $NFirst[S ~[]int](xs S, stop int) (n int) {
	for _, x := range xs {
		if x == stop {
			break
		}
		n++
	}
	return
}

$GEN{$NG(a int)}{int}{
	arr := [4]int{a, a + 1, a + 2, a + 3}
	sum := 0
	for i, v := range &arr {
		if i == 1 {
			continue
		}
		if i == 3 {
			break
		}
		sum += v
	}
	tr.Ev(1, sum)
	$YFROM{$NPart(sum, 2)}
	for k := 0; k < 2; k++ {
		for _, v := range &arr {
			if v > a+k {
				break
			}
			sum++
		}
		switch {
		case sum%2 == 0:
			break
		default:
			sum += 100
		}
		$YFROM{$NPart(sum+$NFirst(arr[:], a+2), 1)}
	}
	$YIELD{sum}
	$RET
}

$GEN{$NT[S ~[]int](xs S, a int)}{int}{
	n := 0
	for _, x := range xs {
		if x == a {
			continue
		}
		if x > a+2 {
			break
		}
		n += x
	}
	$YFROM{$NPart(n, 2)}
	$YIELD{n}
	$RET
}`, entries: []*Entry{drive("$NG", "int", 1, nil), {Name: "$NT", Kind: "drive", Call: "$P$NT([]int{0, 1, 2, 3, 4, 5}, $0)", Elem: "int", Inputs: allInputs(1, 0, 3), Scripts: []string{"std"}}}},
}

// ---- panics (C18) ----------------------------------------------------------------------------------

var panicShapes7 = []shape{
	// a closure over a method of a nil interface PARAMETER (never assigned) is created in the first step and called in a later
	// one, or never: the nil dereference belongs to the advance that CALLS the closure
	{name: "closure-over-method-of-nil-interface-parameter-created-early-called-late", tags: []string{"panic"}, decls: `
type $NSrc interface{ Next() int }

type $NImpl struct{ v int }

func (s *$NImpl) Next() int { s.v++; return s.v }

$GEN{$NPull(src $NSrc, n int)}{int}{
	pull := func() int { return src.Next() }
	tr.Ev(1, n)
	$YIELD{0}
	$YIELD{1}
	if n > 1 {
		$YIELD{pull()}
	}
	$YIELD{3}
	$RET
}

$GEN{$NG(a int)}{int}{
	var none $NSrc
	$YIELD{100}
	if a%2 == 0 {
		$YFROM{$NPull(none, a)}
	} else {
		$YFROM{$NPull(&$NImpl{v: 40}, a)}
	}
	$YIELD{200}
	$RET
}`, entries: []*Entry{drive("$NG", "int", 1, nil)}},
}

// ---- optimiser bait (C02, C07, C03) ----------------------------------------------------------------

var optimiserBait7 = []shape{
	// a yield of a composite literal whose elements are all constants is the sole statement of a repeated block: the literal
	// still has to be evaluated once per run of the block - a pointer, slice or map literal is a NEW object each time, which a
	// consumer that keeps or mutates what it receives can tell
	{name: "yield-of-constant-only-reference-literals-in-a-repeated-block", tags: []string{"eta-shape"}, decls: `
type $NRow struct{ n int }

$GEN{$NRows()}{*$NRow}{
	for {
		$YIELD{&$NRow{}}
	}
}

$GEN{$NSlices(k int)}{[]int}{
	for i := 0; i < k; i++ {
		$YIELD{[]int{0, 0}}
	}
	$RET
}

$GEN{$NMaps(k int)}{map[string]int}{
	for k > 0 {
		k--
		$YIELD{map[string]int{"hits": 0}}
	}
	$RET
}

func $NC(a int) (res int) {
	n := 0
	var first *$NRow
	for r := range $RANGE{$NRows()} {
		if first == nil {
			first = r
		} else if r == first {
			res += 100000
		}
		r.n += a + 1
		res = res*10 + r.n%10
		if n++; n == 3 {
			break
		}
	}
	for sl := range $RANGE{$NSlices(3)} {
		sl[0]++
		res = res*10 + sl[0]
	}
	for m := range $RANGE{$NMaps(3)} {
		m["hits"]++
		res = res*10 + m["hits"]
	}
	return
}`, entries: []*Entry{callEntry("$NC", 1, nil)}},
}
