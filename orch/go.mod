module verif/orch

go 1.23

require pgregory.net/rapid v1.3.0
