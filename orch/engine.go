package main

import (
	"crypto/sha1"
	"encoding/hex"
	"encoding/json"
	"flag"
	"fmt"
	"os"
	"path/filepath"
	"regexp"
	"sort"
	"strconv"
	"strings"
	"sync"
	"testing"
	"time"

	"pgregory.net/rapid"
)

// ---------------------------------------------------------------------------------------------
// rapid from a plain main binary: a minimal TB

type rapidTB struct {
	failed bool
	msgs   []string
}

func (t *rapidTB) Helper()      {}
func (t *rapidTB) Name() string { return "orch" }
func (t *rapidTB) Logf(f string, a ...any) {
	t.msgs = append(t.msgs, fmt.Sprintf(f, a...))
}
func (t *rapidTB) Log(a ...any)              { t.msgs = append(t.msgs, fmt.Sprint(a...)) }
func (t *rapidTB) Skipf(f string, a ...any)  {}
func (t *rapidTB) Skip(a ...any)             {}
func (t *rapidTB) SkipNow()                  {}
func (t *rapidTB) Errorf(f string, a ...any) { t.failed = true; t.msgs = append(t.msgs, fmt.Sprintf(f, a...)) }
func (t *rapidTB) Error(a ...any)            { t.failed = true; t.msgs = append(t.msgs, fmt.Sprint(a...)) }
func (t *rapidTB) Fatalf(f string, a ...any) { t.Errorf(f, a...); panic("rapidTB.Fatalf") }
func (t *rapidTB) Fatal(a ...any)            { t.Error(a...); panic("rapidTB.Fatal") }
func (t *rapidTB) FailNow()                  {}
func (t *rapidTB) Fail()                     { t.failed = true }
func (t *rapidTB) Failed() bool              { return t.failed }

// drawAll runs rapid.Check with n checks; every check calls draw once. The rapid property never
// fails in engine T (violations are collected, not raised), so rapid is purely the seeded source of
// every random choice.
func drawAll(seed uint64, n int, draw func(t *rapid.T)) error {
	_ = flag.Set("rapid.seed", fmt.Sprint(seed))
	_ = flag.Set("rapid.checks", fmt.Sprint(n))
	_ = flag.Set("rapid.nofailfile", "true")
	tb := &rapidTB{}
	func() {
		defer func() {
			if r := recover(); r != nil {
				tb.failed = true
				tb.msgs = append(tb.msgs, fmt.Sprint("panic: ", r))
			}
		}()
		rapid.Check(tb, draw)
	}()
	if tb.failed {
		return fmt.Errorf("generator failed: %s", strings.Join(tb.msgs, "\n"))
	}
	return nil
}

func init() {
	testing.Init()
}

// ---------------------------------------------------------------------------------------------
// run state shared by the property checks

type violationT struct {
	Property  string        `json:"property"`
	Engine    string        `json:"engine"`
	Kind      string        `json:"kind"` // trace | direct | compile | build | crash | uo-trace | text | layout ...
	Signature string        `json:"signature"`
	What      string        `json:"what"`
	Program   *Program      `json:"program,omitempty"`
	Entry     string        `json:"entry,omitempty"`
	Input     []int         `json:"input,omitempty"`
	Script    string        `json:"script,omitempty"`
	Stage     *stageFailure `json:"stage,omitempty"`
	Traces    map[string][]string `json:"traces,omitempty"`
	SourceS   string        `json:"source_s,omitempty"`
	SourceR   string        `json:"source_ref,omitempty"`
	Output    string        `json:"compiled_output,omitempty"`
	Style     importStyle   `json:"import_style"`
	NeedU     bool          `json:"need_u,omitempty"`
	Extra     map[string]any `json:"extra,omitempty"`
}

type runState struct {
	pid      string
	tier     string
	seed     uint64
	tools    *tools
	start    time.Time
	mu       sync.Mutex
	evals    int
	seen     map[[8]byte]struct{}
	samples  []any
	classes  map[string]int
	rules    []string
	exh      []string
	extra    map[string]any
	viols    []*violationT
	casualties map[string]int // compile/build failures attributed elsewhere, by signature
	dropped  int
	casualtyReplays []string
	programs int
	infra    []string
	known    []string
	workers  int
	shrinkStart time.Time
}

func newRunState(pid, tier string, seed uint64, t *tools) *runState {
	return &runState{pid: pid, tier: tier, seed: seed, tools: t, start: time.Now(), seen: map[[8]byte]struct{}{},
		classes: map[string]int{}, extra: map[string]any{}, casualties: map[string]int{}, workers: 6}
}

func (rs *runState) rule(s string) { rs.rules = append(rs.rules, s) }

func (rs *runState) eval(key string, nontrivial bool, classes ...string) {
	rs.mu.Lock()
	defer rs.mu.Unlock()
	rs.evals++
	for _, c := range classes {
		rs.classes[c]++
	}
	if nontrivial {
		h := sha1.Sum([]byte(key))
		var k [8]byte
		copy(k[:], h[:8])
		rs.seen[k] = struct{}{}
	}
}

func (rs *runState) sample(v any) {
	rs.mu.Lock()
	defer rs.mu.Unlock()
	if len(rs.samples) < 5 {
		rs.samples = append(rs.samples, v)
	}
}

func (rs *runState) addViolation(v *violationT) {
	rs.mu.Lock()
	defer rs.mu.Unlock()
	v.Property = rs.pid
	v.Engine = "T"
	rs.viols = append(rs.viols, v)
}

func (rs *runState) infraProblem(s string) {
	rs.mu.Lock()
	defer rs.mu.Unlock()
	rs.infra = append(rs.infra, s)
}

func (rs *runState) writePart() {
	part := map[string]any{
		"engine":              "T",
		"evaluations":         rs.evals,
		"distinct_nontrivial": len(rs.seen),
		"rules":               rs.rules,
		"samples":             rs.samples,
		"classes":             rs.classes,
		"exhaustive_parts":    rs.exh,
		"violations":          len(rs.viols),
		"wall_s":              time.Since(rs.start).Seconds(),
		"extra":               rs.extra,
	}
	rs.extra["programs_generated"] = rs.programs
	rs.extra["programs_dropped_compile_or_build_casualties"] = rs.dropped
	if len(rs.casualties) > 0 {
		rs.extra["casualties_by_signature"] = rs.casualties
		rs.extra["casualty_replays"] = rs.casualtyReplays
	}
	dir := filepath.Join(os.Getenv("VERIF_EVIDENCE_DIR"), "parts")
	if os.Getenv("VERIF_EVIDENCE_DIR") == "" {
		dir = filepath.Join(rs.tools.verif, "evidence", "parts")
	}
	_ = os.MkdirAll(dir, 0o755)
	b, _ := json.MarshalIndent(part, "", " ")
	_ = os.WriteFile(filepath.Join(dir, rs.pid+".T.json"), b, 0o644)
}

func replayDirT(verif string) string {
	if d := os.Getenv("VERIF_REPLAY_DIR"); d != "" {
		return d
	}
	return filepath.Join(verif, "replays")
}

func (rs *runState) writeReplay(v *violationT) string {
	return rs.writeReplayAs(v, rs.pid, "T")
}

func (rs *runState) writeReplayAs(v *violationT, pid, prefix string) string {
	b, _ := json.MarshalIndent(v, "", " ")
	h := sha1.Sum(b)
	dir := filepath.Join(replayDirT(rs.tools.verif), pid)
	_ = os.MkdirAll(dir, 0o755)
	path := filepath.Join(dir, prefix+"-"+v.Kind+"-"+hex.EncodeToString(h[:5])+".json")
	_ = os.WriteFile(path, b, 0o644)
	return path
}

// ---------------------------------------------------------------------------------------------
// generic differential run: draw programs, run batches in parallel, isolate failures

type diffSpec struct {
	profiles  []*profile
	batchSize int
	batches   int
	opts      batchOpts
	styles    []importStyle
	// classify returns whether the case is non-trivial and its classes
	nontrivial func(p *Program, r *Record) bool
	// ownsCompile: compile/build failures are violations of this property (C11); otherwise casualties
	ownsCompileFor func(p *Program) bool // compile/build failures of these programs are violations of this property
	ownsCompile bool
	// casualtiesOK: a compile/build failure that onCompileFail does not handle is only counted (and its program kept as
	// a C11 replay), not reported. Default (false): it is a violation of the running property as well - every
	// property of engine T quantifies over all programs of the supported subset, and a program without a buildable
	// compiled form cannot satisfy it.
	casualtiesOK bool
	// extra per-batch check (e.g. text comparisons); may add violations
	perBatch func(rs *runState, b *batch, res *batchResult)
	perRecord func(rs *runState, p *Program, r *Record) *violationT
	mutate   func(t *rapid.T, p *Program) // post-processing of a drawn program (e.g. injection)
	fixed    []*Program                  // table programs, run in addition to the drawn ones
	fixedStyles bool                     // run the table once per import style
	noTraceOwner bool                    // o != r is not a violation of this property (only counted)
	onCompileFail func(rs *runState, p *Program, f *stageFailure, b *batch) bool // true = handled
	multiFile    bool // spread the programs of a batch over 1-3 files with different import styles
	testFiles    bool // put some programs into a _test.go file
	onlyCalls    bool // drive entries are not executed (the oracle side cannot run generators: C13's source package)
}

type drawnBatch struct {
	progs []*Program
	style importStyle
	files int
}

func (rs *runState) drawBatches(spec *diffSpec) ([]drawnBatch, error) {
	var all []drawnBatch
	n := 0
	styles := spec.styles
	if len(styles) == 0 {
		styles = importStyles
	}
	var err error
	if spec.batches > 0 {
		err = drawAll(rs.seed, spec.batches, func(t *rapid.T) {
		var db drawnBatch
		db.style = styles[rapid.IntRange(0, len(styles)-1).Draw(t, "style")]
		if spec.multiFile {
			db.files = rapid.IntRange(1, 3).Draw(t, "files")
		}
		for i := 0; i < spec.batchSize; i++ {
			prof := spec.profiles[rapid.IntRange(0, len(spec.profiles)-1).Draw(t, "profile")]
			n++
			p := genProgram(t, prof, fmt.Sprintf("P%05d", n))
			if spec.mutate != nil {
				spec.mutate(t, p)
			}
			if spec.testFiles && rapid.IntRange(0, 5).Draw(t, "intest") == 0 {
				p.TestFile = true // lives in p_test.go: compiled and built, not linked into the runner
			}
			db.progs = append(db.progs, p)
		}
		all = append(all, db)
	})
	}
	rs.programs += n
	// table programs: deterministic batches
	if spec.batchSize <= 0 {
		spec.batchSize = 40
	}
	if len(spec.fixed) > 0 {
		sts := []importStyle{styles[0]}
		if spec.fixedStyles {
			sts = styles
			if rs.tier != "thorough" && len(styles) > 2 {
				// quick: the default style plus one that rotates with the seed; thorough: all
				sts = []importStyle{styles[0], styles[1+int(rs.seed%uint64(len(styles)-1))]}
			}
		}
		for si, st := range sts {
			for i := 0; i < len(spec.fixed); i += spec.batchSize {
				j := i + spec.batchSize
				if j > len(spec.fixed) {
					j = len(spec.fixed)
				}
				progs := spec.fixed[i:j]
				if si > 0 {
					// distinct names per style so evidence keys stay distinct
					var cp []*Program
					for _, p := range progs {
						cp = append(cp, renameProgram(p, fmt.Sprintf("%sS%d", p.Name, si)))
					}
					progs = cp
				}
				all = append(all, drawnBatch{progs: progs, style: st})
				rs.programs += len(progs)
			}
		}
	}
	return all, err
}

// renameProgram returns a deep copy with every occurrence of the program name replaced.
func renameProgram(p *Program, name string) *Program {
	b, _ := json.Marshal(p)
	var c Program
	_ = json.Unmarshal([]byte(strings.ReplaceAll(string(b), p.Name, name)), &c)
	return &c
}

func progByName(progs []*Program, name string) *Program {
	for _, p := range progs {
		if p.Name == name {
			return p
		}
	}
	return nil
}

// processRecords turns the runner's records into evaluations and violation candidates.
func (rs *runState) processRecords(spec *diffSpec, b *batch, res *batchResult) {
	for i := range res.records {
		r := &res.records[i]
		p := progByName(b.progs, r.Prog)
		if p == nil {
			continue
		}
		nt := spec.nontrivial == nil || spec.nontrivial(p, r)
		key := r.Prog + "/" + r.Entry + fmt.Sprint(r.Input) + r.Script + r.Hash
		// distinctness: hash of the reference trace + entry; identical programs with identical
		// behaviour collapse
		rs.eval(progHash(p)+r.Entry+fmt.Sprint(r.Input)+r.Script, nt, p.Tags...)
		_ = key
		if !r.Equal && spec.noTraceOwner {
			rs.mu.Lock()
			rs.classes["cross-check: differs from reference (owned by C01-C06)"]++
			rs.mu.Unlock()
		} else if !r.Equal {
			what := fmt.Sprintf("%s %s input %v script %s: interleaved traces differ: %v", r.Prog, r.Entry, r.Input, r.Script, r.Diff)
			kind := "trace"
			if _, ok := r.Diff["u"]; ok && len(r.Diff) == 1 {
				kind = "uo-trace"
			}
			rs.addViolation(&violationT{Kind: kind, Signature: diffSignature(r), What: what, Program: p, Entry: r.Entry, Input: r.Input, Script: r.Script,
				Traces: r.Traces, SourceS: progSource(b.srcS, p.Name), SourceR: progSource(b.srcR, p.Name), Output: progSource(res.outO, p.Name), Style: b.opts.style, NeedU: b.opts.needU})
		} else if len(r.Direct) > 0 {
			rs.addViolation(&violationT{Kind: "direct", Signature: "direct:" + normDigits(r.Direct[0]), What: fmt.Sprintf("%s %s input %v: %v", r.Prog, r.Entry, r.Input, r.Direct), Program: p, Entry: r.Entry, Input: r.Input, Script: r.Script,
				Traces: r.Traces, SourceS: progSource(b.srcS, p.Name), Output: progSource(res.outO, p.Name), Style: b.opts.style, NeedU: b.opts.needU})
		}
		if spec.perRecord != nil {
			if v := spec.perRecord(rs, p, r); v != nil {
				v.Program, v.Entry, v.Input, v.Script = p, r.Entry, r.Input, r.Script
				v.SourceS, v.Output, v.Style = progSource(b.srcS, p.Name), progSource(res.outO, p.Name), b.opts.style
				if v.Traces == nil {
					v.Traces = r.Traces
				}
				rs.addViolation(v)
			}
		}
		if r.Traces != nil && r.Equal && (nt || rs.evals < 50) {
			rs.sample(map[string]any{"program": p.Name, "tags": p.Tags, "entry": r.Entry, "input": r.Input, "script": r.Script,
				"source": progSource(b.srcS, p.Name), "trace": clip(oracleTrace(r.Traces), 60)})
		}
	}
}

func oracleTrace(t map[string][]string) []string {
	for _, k := range []string{"r", "s", "o"} {
		if v, ok := t[k]; ok {
			return v
		}
	}
	return nil
}

func clip(t []string, n int) []string {
	if len(t) > n {
		return append(append([]string{}, t[:n]...), fmt.Sprintf("... (%d more)", len(t)-n))
	}
	return t
}

func normDigits(s string) string {
	var b strings.Builder
	prev := false
	for _, c := range s {
		if c >= '0' && c <= '9' {
			if !prev {
				b.WriteByte('#')
			}
			prev = true
			continue
		}
		prev = false
		b.WriteRune(c)
	}
	return b.String()
}

// lineKind abstracts a trace line to its kind, so one root cause gives one signature
func lineKind(l string) string {
	l = strings.Trim(l, `"`)
	switch {
	case strings.HasPrefix(l, "mn="), l == "mn?", l == "call", l == "new", l == "stop", l == "<end>":
		return l
	case strings.HasPrefix(l, "cur0="):
		return "cur0"
	case strings.HasPrefix(l, "cur="):
		return "cur"
	case strings.HasPrefix(l, "res="):
		return "res"
	case strings.HasPrefix(l, "panic="):
		return "panic"
	case strings.HasPrefix(l, "e"):
		return "ev"
	case strings.HasPrefix(l, "v"):
		return "vl"
	}
	return "?"
}

var reDiff = regexp.MustCompile(`^\d+: (\w+)=("(?:[^"\\]|\\.)*") (\w+)=("(?:[^"\\]|\\.)*")$`)

var reDiffUO = regexp.MustCompile(`^\d+: u=("(?:[^"\\]|\\.)*") o=("(?:[^"\\]|\\.)*")$`)

func unq(s string) string {
	u, err := strconv.Unquote(s)
	if err != nil {
		return s
	}
	return u
}

func diffSignature(r *Record) string {
	var parts []string
	for _, k := range sortedKeys(r.Diff) {
		d := r.Diff[k]
		if m := reDiff.FindStringSubmatch(d); m != nil {
			a, _ := strconv.Unquote(m[2])
			b, _ := strconv.Unquote(m[4])
			parts = append(parts, m[1]+"="+lineKind(a)+" "+m[3]+"="+lineKind(b))
			continue
		}
		parts = append(parts, normDigits(d))
	}
	return strings.Join(parts, ";")
}

func progHash(p *Program) string {
	c := *p
	c.Name = ""
	b, _ := json.Marshal(c.Decls)
	s := strings.ReplaceAll(string(b), p.Name, "P")
	h := sha1.Sum([]byte(s))
	return hex.EncodeToString(h[:8])
}

// runDiff executes all drawn batches; failing batches are split into single programs.
func (rs *runState) runDiff(spec *diffSpec) {
	batches, err := rs.drawBatches(spec)
	if err != nil {
		rs.infraProblem(err.Error())
		return
	}
	type job struct {
		db     drawnBatch
		single bool
	}
	jobs := make(chan job, len(batches)*(2*spec.batchSize+2)+8)
	var wg sync.WaitGroup
	var pending sync.WaitGroup
	for _, db := range batches {
		pending.Add(1)
		jobs <- job{db: db}
	}
	go func() { pending.Wait(); close(jobs) }()
	for w := 0; w < rs.workers; w++ {
		wg.Add(1)
		go func() {
			defer wg.Done()
			for j := range jobs {
				func() {
					defer pending.Done()
					opts := spec.opts
					opts.style = j.db.style
					opts.onlyCalls = spec.onlyCalls
					opts.files = j.db.files
					res, b := rs.tools.runBatch(j.db.progs, opts)
					if b != nil {
						defer b.cleanup()
					}
					if res.fail != nil && res.fail.Stage == "infra" {
						rs.infraProblem(res.fail.Diag)
						return
					}
					if res.fail != nil && res.fail.Stage == "render" {
						rs.infraProblem("renderer: " + res.fail.Diag)
						return
					}
					if res.fail != nil && res.fail.Stage == "build-r" {
						// the reference rendering does not build: generator/renderer bug, not the subject's
						if len(j.db.progs) > 1 {
							h := len(j.db.progs) / 2
							for _, part := range [][]*Program{j.db.progs[:h], j.db.progs[h:]} {
								pending.Add(1)
								jobs <- job{db: drawnBatch{progs: part, style: j.db.style, files: j.db.files}, single: len(part) == 1}
							}
							return
						}
						rs.infraProblem(fmt.Sprintf("reference rendering of %s does not build:\n%s\n%s", j.db.progs[0].Name, res.fail.Diag, b.srcR))
						return
					}
					if res.fail != nil && res.fail.Stage == "build-run" {
						rs.infraProblem("runner does not build: " + res.fail.Diag)
						return
					}
					if res.fail != nil && res.fail.Stage != "run" {
						if len(j.db.progs) > 1 {
							// isolate by bisection: both halves go back to the queue
							h := len(j.db.progs) / 2
							for _, part := range [][]*Program{j.db.progs[:h], j.db.progs[h:]} {
								pending.Add(1)
								jobs <- job{db: drawnBatch{progs: part, style: j.db.style, files: j.db.files}, single: len(part) == 1}
							}
							return
						}
						p := j.db.progs[0]
						sig := res.fail.Stage + ":" + normDiag(res.fail.Diag)
						if res.fail.Timeout {
							rs.infraProblem(fmt.Sprintf("%s timed out for %s", res.fail.Stage, p.Name))
							return
						}
						if spec.onCompileFail != nil && spec.onCompileFail(rs, p, res.fail, b) {
							return
						}
						if spec.ownsCompile || !spec.casualtiesOK || (spec.ownsCompileFor != nil && spec.ownsCompileFor(p)) {
							rs.eval(progHash(p)+"compile", true, p.Tags...)
							what := fmt.Sprintf("%s: %s failed: %s", p.Name, res.fail.Stage, normDiag(res.fail.Diag))
							if !spec.ownsCompile {
								what += " (a program of the supported subset for which the compiler produces no buildable output has no compiled form that could satisfy " + rs.pid + "; the same event violates C11)"
							}
							rs.addViolation(&violationT{Kind: strings.SplitN(res.fail.Stage, "-", 2)[0], Signature: sig, What: what,
								Program: p, Stage: res.fail, SourceS: b.srcS, Output: res.outO, Style: j.db.style, NeedU: opts.needU})
						} else {
							rs.mu.Lock()
							rs.dropped++
							rs.casualties[sig]++
							first := rs.casualties[sig] == 1
							rs.mu.Unlock()
							if first {
								// keep the (unshrunk) program: `./check C11 --replay <file>` re-runs it
								cv := &violationT{Property: "C11", Engine: "T", Kind: strings.SplitN(res.fail.Stage, "-", 2)[0], Signature: sig,
									What:    fmt.Sprintf("casualty seen by the %s run: %s: %s failed: %s", rs.pid, p.Name, res.fail.Stage, normDiag(res.fail.Diag)),
									Program: p, Stage: res.fail, SourceS: b.srcS, Output: res.outO, Style: j.db.style, NeedU: opts.needU}
								path := rs.writeReplayAs(cv, "C11", "casualty-"+rs.pid)
								rs.mu.Lock()
								rs.casualtyReplays = append(rs.casualtyReplays, path)
								rs.mu.Unlock()
							}
						}
						return
					}
					// records (possibly partial when the runner died)
					rs.processRecords(spec, b, res)
					if spec.perBatch != nil {
						spec.perBatch(rs, b, res)
					}
					if res.fail != nil && res.fail.Stage == "run" {
						// the runner died inside a case (fatal error such as stack overflow, or a timeout)
						if !j.single && len(j.db.progs) > 1 {
							name := strings.Fields(res.crashed + " ?")[0]
							done := map[string]bool{}
							for _, r := range res.records {
								done[r.Prog] = true
							}
							for _, p := range j.db.progs {
								if p.Name == name || !done[p.Name] {
									pending.Add(1)
									jobs <- job{db: drawnBatch{progs: []*Program{p}, style: j.db.style}, single: true}
								}
							}
							return
						}
						if res.fail.Hang {
							p := j.db.progs[0]
							rs.addViolation(&violationT{Kind: "hang", Signature: "hang", What: fmt.Sprintf("%s: the compiled code did not finish a case the reference completes at once (%s)", p.Name, res.fail.Diag),
								Program: p, Stage: res.fail, SourceS: b.srcS, Output: res.outO, Style: j.db.style, NeedU: opts.needU})
							return
						}
						if res.fail.Timeout {
							rs.infraProblem(fmt.Sprintf("runner timed out in case %q", res.crashed))
							return
						}
						if d := res.fail.Diag; !strings.Contains(d, "fatal error:") && !strings.Contains(d, "panic:") && !strings.Contains(d, "race detector report") {
							// killed from outside / out of memory: not evidence about the subject
							rs.infraProblem(fmt.Sprintf("runner died without a Go fatal error in case %q: %s", res.crashed, firstLine(d)))
							return
						}
						p := j.db.progs[0]
						rs.addViolation(&violationT{Kind: "crash", Signature: "crash:" + normDiag(firstFatal(res.fail.Diag)), What: fmt.Sprintf("%s: runner died in case %q: %s", p.Name, res.crashed, firstFatal(res.fail.Diag)),
							Program: p, Stage: res.fail, SourceS: b.srcS, Output: res.outO, Style: j.db.style, NeedU: opts.needU})
					}
				}()
			}
		}()
	}
	wg.Wait()
}

// ---------------------------------------------------------------------------------------------
// reporting

type knownFinding struct {
	Property string `json:"property"`
	ID       string `json:"id"`
	Engine   string `json:"engine"`
	Replay   string `json:"replay"`
	What     string `json:"what"`
}

// reproduceKnown re-executes the reproduction of every finding listed in known_findings.json for
// this property. A finding that still fails is reported as KNOWN-FINDING (never as a violation); the
// generators leave its shape out by construction (knownExclusions).
func (rs *runState) reproduceKnown() {
	b, err := os.ReadFile(filepath.Join(rs.tools.verif, "known_findings.json"))
	if err != nil {
		return
	}
	var kf struct {
		Findings []knownFinding `json:"findings"`
	}
	if json.Unmarshal(b, &kf) != nil {
		return
	}
	for _, f := range kf.Findings {
		if f.Property != rs.pid || f.Engine != "T" {
			continue
		}
		rb, err := os.ReadFile(filepath.Join(rs.tools.verif, f.Replay))
		if err != nil {
			rs.infraProblem("known finding replay missing: " + f.Replay)
			continue
		}
		var v violationT
		if json.Unmarshal(rb, &v) != nil || v.Program == nil {
			rs.infraProblem("known finding replay unreadable: " + f.Replay)
			continue
		}
		if ok, _ := rs.failsLike(v.Program, &v); ok {
			rs.known = append(rs.known, fmt.Sprintf("KNOWN-FINDING: property=%s %s: %s", rs.pid, f.ID, f.What))
		} else {
			fmt.Printf("note: known finding %s no longer reproduces on this tree\n", f.ID)
		}
	}
	rs.extra["known_findings_excluded_by_construction"] = len(rs.known)
}

// finish groups violations by signature, shrinks one representative per signature, writes replay
// files and prints VIOLATION lines. Returns the exit code.
func (rs *runState) finish() int {
	bySig := map[string][]*violationT{}
	for _, v := range rs.viols {
		bySig[v.Kind+"|"+v.Signature] = append(bySig[v.Kind+"|"+v.Signature], v)
	}
	sigs := sortedKeys(bySig)
	reported := 0
	seenShrunk := map[string]bool{}
	for _, sig := range sigs {
		vs := bySig[sig]
		// smallest program first
		sort.Slice(vs, func(i, j int) bool { return progSize(vs[i].Program) < progSize(vs[j].Program) })
		v := vs[0]
		if reported >= 6 {
			break
		}
		if v.Program != nil && os.Getenv("VERIF_NOSHRINK") == "" && v.Kind != "hang" /* every candidate would cost the watchdog's budget */ {
			v = rs.shrink(v)
		}
		key := v.Kind + "|" + v.Signature + "|" + progHashOrEmpty(v.Program)
		if seenShrunk[key] {
			continue
		}
		seenShrunk[key] = true
		if v.Extra == nil {
			v.Extra = map[string]any{}
		}
		v.Extra["occurrences_of_signature"] = len(vs)
		path := rs.writeReplay(v)
		fmt.Printf("VIOLATION property=%s replay=%s\n", rs.pid, path)
		fmt.Printf("  %s\n", firstLine(v.What))
		reported++
	}
	for _, k := range rs.known {
		fmt.Println(k)
	}
	rs.extra["distinct_violation_signatures"] = len(sigs)
	rs.writePart()
	// vacuity guard: a check that may drop programs (C07's casualties) must not drop most of them - that is what a harness
	// problem looks like from the inside (every batch failing for one reason of mine), never a passed check
	if rs.programs > 0 && rs.dropped*4 > rs.programs {
		rs.infra = append(rs.infra, fmt.Sprintf("%d of %d generated programs were dropped as compile/build casualties: the run decides nothing", rs.dropped, rs.programs))
	}
	// infrastructure problems are printed even when violations exist: a broken shape of mine silently removes its whole
	// batch from the run otherwise
	for i, s := range rs.infra {
		if i < 5 {
			fmt.Println("INFRA:", s)
		}
	}
	if len(rs.viols) > 0 {
		return 1
	}
	if len(rs.infra) > 0 {
		return 2
	}
	return 0
}

func progHashOrEmpty(p *Program) string {
	if p == nil {
		return ""
	}
	return progHash(p)
}

func progSize(p *Program) int {
	if p == nil {
		return 0
	}
	n := 0
	for _, d := range p.Decls {
		n += 2
		walkStmts(d.Body, func(*Stmt) { n++ })
	}
	return n
}
