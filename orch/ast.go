package main

// Abstract programs of engine T. A Program is a self-contained group of declarations (generators,
// closures, consumers, bystanders) with the entries the runner executes. It is rendered twice:
// S (go-co source, input of the compiler) and Ref (reference over ref.It / iter.Pull).
// The JSON form of a Program is the replay format.

type Program struct {
	Name      string   `json:"name"` // unique identifier prefix, e.g. P0012
	Profile   string   `json:"profile,omitempty"`
	Tags      []string `json:"tags,omitempty"` // features the generator put in by construction
	Decls     []*Decl  `json:"decls"`
	Entries   []*Entry `json:"entries"`
	Unordered bool     `json:"unordered,omitempty"` // traces compared as multisets (map ranges with >= 2 entries)
	TestFile  bool     `json:"test_file,omitempty"` // rendered into a _test.go file
	Twin      string   `json:"twin,omitempty"`      // "yieldfrom-to-range": a metamorphic twin is compiled alongside (C05)
	Imports   []string `json:"imports,omitempty"`   // extra import specs of the file the program is rendered into (e.g. `"time"`)
}

type Param struct {
	Name string `json:"name"`
	Type string `json:"type"`
}

// Decl is a top-level declaration.
type Decl struct {
	Kind    string   `json:"kind"` // gen | fn | raw
	Name    string   `json:"name,omitempty"`
	Recv    string   `json:"recv,omitempty"`    // method receiver, e.g. "t P1T" or "t *P1T"
	TParams string   `json:"tparams,omitempty"` // e.g. "[T any]"
	Params  []Param  `json:"params,omitempty"`
	Elem    string   `json:"elem,omitempty"`    // gen: element type
	Result  string   `json:"result,omitempty"`  // fn: result declaration, e.g. "(res int)"
	NamedRet bool    `json:"named_ret,omitempty"` // gen: declare the result as "(_ Iter[T])" and use bare return
	Body    []*Stmt  `json:"body,omitempty"`
	Raw     string   `json:"raw,omitempty"` // raw: template text (see expandRaw)
}

// Entry is something the runner executes for every input vector and script.
type Entry struct {
	Name    string   `json:"name"`
	Kind    string   `json:"kind"` // drive (generator consumed by a script) | call (function result + trace)
	Call    string   `json:"call"` // expression template; $P = package qualifier, $0 $1 .. = inputs
	Elem    string   `json:"elem,omitempty"`
	Inputs  [][]int  `json:"inputs"`
	Scripts []string `json:"scripts,omitempty"`
	Fuel    int      `json:"fuel,omitempty"`
	Probes  bool     `json:"probes,omitempty"`
	NoSrc   bool     `json:"-"`
}

// Expr is an expression. Integer-valued unless K says otherwise; variables of other types are
// converted at the use site according to T.
type Expr struct {
	K    string  `json:"k"` // lit var bin neg vl call cur len idx conv raw | cmp and or not true false vlb
	N    int     `json:"n,omitempty"`
	Name string  `json:"name,omitempty"`
	T    string  `json:"t,omitempty"` // static type of a var reference (int if empty)
	Op   string  `json:"op,omitempty"`
	L    *Expr   `json:"l,omitempty"`
	R    *Expr   `json:"r,omitempty"`
	Args []*Expr `json:"args,omitempty"`
	Raw  string  `json:"raw,omitempty"`
}

type Case struct {
	Exprs   []*Expr  `json:"exprs,omitempty"`
	Types   []string `json:"types,omitempty"`
	Default bool     `json:"default,omitempty"`
	Body    []*Stmt  `json:"body"`
}

// IterExpr denotes an iterator value.
type IterExpr struct {
	K    string  `json:"k"` // call (generator decl), var (iterator variable / closure call), raw
	Name string  `json:"name,omitempty"`
	Args []*Expr `json:"args,omitempty"`
	Raw  string  `json:"raw,omitempty"`
	Elem string  `json:"elem,omitempty"`
}

// Coll is a ranged collection.
type Coll struct {
	Kind string `json:"kind"` // string slice array map chan int
	Lit  string `json:"lit"`  // Go expression (same text in both renderings)
	KT   string `json:"kt"`   // key type
	VT   string `json:"vt"`   // value type ("" if none)
	Vl   int    `json:"vl,omitempty"` // if > 0 the range expression is wrapped in tr.Vl(id, ..) (evaluated once)
	N    int    `json:"n,omitempty"`  // number of iterations the literal produces (for tagging)
}

// FuncLit is a function literal bound to a local variable.
type FuncLit struct {
	Gen    bool    `json:"gen,omitempty"` // generator literal func(..) Iter[Elem]
	Params []Param `json:"params,omitempty"`
	Elem   string  `json:"elem,omitempty"`
	Result string  `json:"result,omitempty"` // plain closures: "int" or ""
	Body   []*Stmt `json:"body"`
	Ret    *Expr   `json:"ret,omitempty"` // plain closures with a result: final return expression
}

// Stmt is a statement.
type Stmt struct {
	K     string    `json:"k"`
	ID    int       `json:"id,omitempty"`
	Name  string    `json:"name,omitempty"`
	Name2 string    `json:"name2,omitempty"`
	T     string    `json:"t,omitempty"`
	Op    string    `json:"op,omitempty"`
	E     *Expr     `json:"e,omitempty"`
	Args  []*Expr   `json:"args,omitempty"`
	Init  *Stmt     `json:"init,omitempty"`
	Post  *Stmt     `json:"post,omitempty"`
	Body  []*Stmt   `json:"body,omitempty"`
	Else  []*Stmt   `json:"else,omitempty"`
	HasElse bool    `json:"has_else,omitempty"`
	ElseIf *Stmt    `json:"else_if,omitempty"`
	Cases []*Case   `json:"cases,omitempty"`
	Coll  *Coll     `json:"coll,omitempty"`
	Iter  *IterExpr `json:"iter,omitempty"`
	Fn    *FuncLit  `json:"fn,omitempty"`
	Raw   string    `json:"raw,omitempty"`
}

// Statement kinds (K):
//   ev        tr.Ev(ID, Args...)
//   decl      Name := E            (T: declared type for conversions, default int)
//   var       var Name T
//   assign    Name Op E            (Op: = += -= *=)
//   incdec    Name Op              (Op: ++ --)
//   yield     Yield(wrap(E))
//   yieldraw  Yield(Raw)           (element expression given as text)
//   yieldfrom YieldFrom(Iter)
//   block     { Body }
//   if        if [Init;] E { Body } [else if ElseIf | else { Else }]
//   switch    switch [Init;] [E] { Cases }         (E nil: tag-less, case exprs are conditions)
//   tswitch   switch [Init;] [Name :=] Raw.(type) { Cases }    (Raw: expression of interface type)
//   for       for [Init]; [E]; [Post] { Body }
//   range     for Name, Name2 Op range Coll { Body }   (Op := or =; empty names omitted, "_" blank)
//   crange    for Name Op range Iter { Body }          (consumer-side range over an iterator)
//   break continue return
//   panic     panic(E)   (T: "rt" -> runtime error via nil map write)
//   closure   Name := func literal Fn
//   callstmt  Name(Args...)   as a statement
//   itdecl    Name := Iter      (iterator variable)
//   itnext    Name.MoveNext()   as a statement (manual advance), logs result via tr.Vl when ID > 0
//   probe     tr.Probe(ID)
//   raw       template text (see expandRaw)

func (s *Stmt) children() [][]*Stmt {
	var out [][]*Stmt
	if s.Body != nil {
		out = append(out, s.Body)
	}
	if s.Else != nil {
		out = append(out, s.Else)
	}
	for _, c := range s.Cases {
		out = append(out, c.Body)
	}
	if s.Fn != nil {
		out = append(out, s.Fn.Body)
	}
	if s.ElseIf != nil {
		out = append(out, []*Stmt{s.ElseIf})
	}
	return out
}

// walkStmts visits every statement (pre-order), including init/post and nested literals.
func walkStmts(list []*Stmt, f func(*Stmt)) {
	for _, s := range list {
		if s == nil {
			continue
		}
		f(s)
		if s.Init != nil {
			walkStmts([]*Stmt{s.Init}, f)
		}
		if s.Post != nil {
			walkStmts([]*Stmt{s.Post}, f)
		}
		for _, ch := range s.children() {
			walkStmts(ch, f)
		}
	}
}

func (p *Program) hasTag(t string) bool {
	for _, x := range p.Tags {
		if x == t {
			return true
		}
	}
	return false
}

func (p *Program) tag(ts ...string) {
	for _, t := range ts {
		if !p.hasTag(t) {
			p.Tags = append(p.Tags, t)
		}
	}
}
