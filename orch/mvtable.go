package main

import "strings"

// Method-value table (C13, C07, C03, C11): a closure `func() int { return R.Get() }` reads the receiver expression R when it is CALLED;
// the method value `R.Get` binds (and for value receivers copies) it when it is EVALUATED. An optimiser that replaces one by the other
// is only right when nothing happens to R in between. The table crosses
//
//	receiver kind   value variable / value method, pointer variable / pointer method, pointer variable / value method, interface variable,
//	                method promoted through an embedded pointer, method of a generic type, receiver reached through a field path
//	change          the receiver variable is re-assigned  |  the state behind it is mutated  (between creation and call)
//	context         plain function of a processed file (oracle: the source package)  |  closure inside a generator, called after a
//	                yield (oracle: the reference)  |  the condition of a yielding loop `for R.More() { .. }` (the thunk the compiler
//	                generates for it has exactly the reducible form)
//
// Every program is valid whatever the optimiser does; the expected values differ per row, so a wrong reduction shows in the result.
type mvKind struct {
	name   string
	decls  string // type + methods; $T is the type name prefix
	mk     string // expression creating a receiver with field value $V
	setup  string // statements before `r := <mk>` (may be empty)
	recv   string // receiver expression used in the closure (default "r")
	reassign string // statement re-assigning the receiver to a fresh object with value $V
	mutate string // statement mutating the state behind the receiver ("" = not applicable: value receivers held by value)
}

var mvKinds = []mvKind{
	{name: "value-var-value-method", decls: "type $TT struct{ x int }\n\nfunc (t $TT) Get() int { return t.x }\n",
		mk: "$TT{$V}", reassign: "r = $TT{$V}", mutate: "r.x += 7"},
	{name: "pointer-var-pointer-method", decls: "type $TT struct{ x int }\n\nfunc (t *$TT) Get() int { return t.x }\n",
		mk: "&$TT{$V}", reassign: "r = &$TT{$V}", mutate: "r.x += 7"},
	{name: "pointer-var-value-method", decls: "type $TT struct{ x int }\n\nfunc (t $TT) Get() int { return t.x }\n",
		mk: "&$TT{$V}", reassign: "r = &$TT{$V}", mutate: "r.x += 7"},
	{name: "interface-var", decls: "type $TI interface{ Get() int }\n\ntype $TT struct{ x int }\n\nfunc (t *$TT) Get() int { return t.x }\n",
		mk: "$TI(&$TT{$V})", reassign: "r = &$TT{$V}", mutate: "r.(*$TT).x += 7"},
	{name: "promoted-through-embedded-pointer", decls: "type $TT struct{ x int }\n\nfunc (t *$TT) Get() int { return t.x }\n\ntype $TO struct{ *$TT }\n",
		mk: "$TO{&$TT{$V}}", reassign: "r.$TT = &$TT{$V}", mutate: "r.x += 7"},
	{name: "method-of-generic-type", decls: "type $TT[X any] struct{ x X }\n\nfunc (t *$TT[X]) Get() X { return t.x }\n",
		mk: "&$TT[int]{$V}", reassign: "r = &$TT[int]{$V}", mutate: "r.x += 7"},
	{name: "receiver-through-field-path", decls: "type $TT struct{ x int }\n\nfunc (t *$TT) Get() int { return t.x }\n\ntype $TH struct{ p *$TT }\n",
		mk: "&$TH{p: &$TT{$V}}", recv: "r.p", reassign: "r.p = &$TT{$V}", mutate: "r.p.x += 7"},
}

func mvExpand(s, prefix, v string) string {
	s = strings.ReplaceAll(s, "$T", prefix)
	return strings.ReplaceAll(s, "$V", v)
}

// methodValueBystanders: context "plain function" (bystander shapes: C13 against the source package, C07 unoptimised vs optimised)
func methodValueBystanders() []shape {
	var out []shape
	for _, k := range mvKinds {
		for _, change := range []string{"reassign", "mutate"} {
			stmt := k.reassign
			if change == "mutate" {
				stmt = k.mutate
			}
			recv := k.recv
			if recv == "" {
				recv = "r"
			}
			decls := byGen + "\n" + mvExpand(k.decls, "$N", "") + "\nfunc $NB(a int) int {\n\tr := " + mvExpand(k.mk, "$N", "a") + "\n\tf := func() int { return " + recv + ".Get() }\n\tbefore := f()\n\t" +
				mvExpand(stmt, "$N", "a + 100") + "\n\treturn before*1000 + f()\n}"
			out = append(out, shape{name: "method-value-table-" + k.name + "-" + change + "-bystander", tags: []string{"eta-shape", "method-value-table"}, decls: decls,
				entries: []*Entry{callEntry("$NB", 1, nil)}})
		}
	}
	return out
}

// methodValueInGenerators: contexts "closure inside a generator" and "loop condition" (oracle: the reference rendering)
func methodValueInGenerators() []shape {
	var out []shape
	for _, k := range mvKinds {
		recv := k.recv
		if recv == "" {
			recv = "r"
		}
		for _, change := range []string{"reassign", "mutate"} {
			stmt := k.reassign
			if change == "mutate" {
				stmt = k.mutate
			}
			decls := mvExpand(k.decls, "$N", "") + "\n$GEN{$NG(a int)}{int}{\n\tr := " + mvExpand(k.mk, "$N", "a") + "\n\tf := func() int { return " + recv + ".Get() }\n\t$YIELD{f()}\n\t" +
				mvExpand(stmt, "$N", "a + 100") + "\n\t$YIELD{f()}\n\t$RET\n}"
			out = append(out, shape{name: "method-value-table-" + k.name + "-" + change + "-closure-in-generator", tags: []string{"eta-shape", "method-value-table"}, decls: decls,
				entries: []*Entry{drive("$NG", "int", 1, [][]int{{0}, {3}})}})
		}
		// loop condition: the receiver is advanced (re-assigned) in the body; Get() < limit is the condition
		decls := mvExpand(k.decls, "$N", "") + "\n$GEN{$NG(a int)}{int}{\n\tr := " + mvExpand(k.mk, "$N", "a") + "\n\tn := 0\n\tfor " + recv + ".Get() < 250 {\n\t\t$YIELD{" + recv + ".Get()}\n\t\tn++\n\t\t" +
			mvExpand(k.reassign, "$N", "a + 100*n") + "\n\t}\n\t$YIELD{n}\n\t$RET\n}"
		out = append(out, shape{name: "method-value-table-" + k.name + "-loop-condition", tags: []string{"eta-shape", "method-value-table"}, decls: decls,
			entries: []*Entry{drive("$NG", "int", 1, [][]int{{0}, {3}})}})
	}
	// a bool method of the receiver as the whole condition: the generated thunk is `func() bool { return c.More() }`
	out = append(out, shape{name: "method-value-table-cursor-advanced-in-the-loop-body", tags: []string{"eta-shape", "method-value-table"}, decls: `
type $NCur struct {
	v    int
	next *$NCur
}

func (c *$NCur) More() bool { return c != nil }

func (c *$NCur) Next() *$NCur { return c.next }

$GEN{$NG(a int)}{int}{
	c := &$NCur{a, &$NCur{a + 1, &$NCur{a + 2, nil}}}
	for c.More() {
		$YIELD{c.v}
		c = c.Next()
	}
	peek := func() bool { return c.More() }
	c = &$NCur{v: 9}
	if peek() {
		$YIELD{c.v}
	}
	$RET
}`, entries: []*Entry{drive("$NG", "int", 1, [][]int{{0}, {3}})}})
	return out
}

func init() {
	bystanderShapes = append(bystanderShapes, methodValueBystanders()...)
	closureInGeneratorShapes = append(closureInGeneratorShapes, methodValueInGenerators()...)
}
