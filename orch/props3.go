package main

import (
	"crypto/sha256"
	"encoding/hex"
	"fmt"
	"io/fs"
	"os"
	"path/filepath"
	"regexp"
	"sort"
	"strings"
	"sync"
	"time"
)

// ---- C15: deterministic output, independent of unrelated inputs -----------------------------------

func writeFiles(base string, files map[string]string) error {
	for name, content := range files {
		p := filepath.Join(base, name)
		if err := os.MkdirAll(filepath.Dir(p), 0o755); err != nil {
			return err
		}
		if err := os.WriteFile(p, []byte(content), 0o644); err != nil {
			return err
		}
	}
	return nil
}

func (t *tools) moduleFiles(mod string) map[string]string {
	sum, _ := os.ReadFile(filepath.Join(t.repo, "go.sum"))
	return map[string]string{
		"go.mod":     "module " + mod + "\n\ngo 1.23\n\nrequire github.com/goghcrow/go-co v0.0.0\n\nreplace github.com/goghcrow/go-co => " + t.repo + "\n",
		"go.sum":     string(sum),
		"tr/tr.go":   strings.ReplaceAll(tplTr, "vt/", mod+"/"),
		"ref/ref.go": strings.ReplaceAll(tplRef, "vt/", mod+"/"),
	}
}

var reHelperDef = regexp.MustCompile(`(ɪʇ\d+|ɐɹ\d+) :=`)

// helperClash reports a generated helper identifier that is defined twice within one function.
func helperClash(src string) string {
	for _, fn := range strings.Split(src, "\nfunc ") {
		seen := map[string]bool{}
		for _, m := range reHelperDef.FindAllStringSubmatch(fn, -1) {
			if seen[m[1]] {
				return m[1]
			}
			seen[m[1]] = true
		}
	}
	return ""
}

const c15PanicTestFile = `package s

import . "github.com/goghcrow/go-co"

func WalkT(n int) Iter[int] {
	if n == 0 {
		Yield(0)
	} else if n > 0 {
		Yield(n)
		YieldFrom(WalkT(n - 1))
	} else {
		panic("negative")
	}
	return nil
}

func ClassT(n int) Iter[int] {
	for i := 0; i < n; i++ {
		switch {
		case i%2 == 0:
			Yield(i)
		default:
			panic("odd")
		}
	}
	return nil
}
`

const c15FibFile = `package s

import . "github.com/goghcrow/go-co"

func Fib(n int) Iter[int] {
	a, b := 0, 1
	for i := 0; i < n; i++ {
		if a > 1000 {
			Yield(-1)
		} else {
			Yield(a)
		}
		a, b = b, a+b
	}
	return nil
}
`

type c15Case struct {
	Target []*Program   `json:"target"`
	Others [][]*Program `json:"others"`
	Style  importStyle  `json:"style"`
}

// runC15Case compiles the target file in several configurations and compares the bytes of its output.
func (rs *runState) runC15Case(idx int, cs c15Case) *violationT {
	base := filepath.Join(rs.tools.scratch, fmt.Sprintf("c15-%04d", idx))
	defer func() {
		if os.Getenv("VERIF_KEEP") == "" {
			_ = os.RemoveAll(base)
		}
	}()
	target, err := renderFile("S", "s", cs.Style, cs.Target, nil)
	if err != nil {
		rs.infraProblem(err.Error())
		return nil
	}
	var others []string
	for i, o := range cs.Others {
		st := importStyles[(i+1)%len(importStyles)]
		src, err := renderFile("S", "s", st, o, nil)
		if err != nil {
			rs.infraProblem(err.Error())
			return nil
		}
		others = append(others, src)
	}
	subpkg := func(src, name string) string { return strings.Replace(src, "package s\n", "package "+name+"\n", 1) }
	type cfg struct {
		name   string
		dir    string
		files  map[string]string
		env    []string
		pre    func(dir string)
		runs   int
		target string // path of the target's output below o/ (default m_target.go)
		group  string // outputs are compared within a group (the package clause differs between groups)
	}
	cfgs := []cfg{
		{name: "alone", dir: "a", files: map[string]string{"s/m_target.go": target}},
		{name: "among-files", dir: "b", files: map[string]string{"s/a_first.go": others[0], "s/m_target.go": target, "s/z_last.go": others[1]}},
		{name: "among-packages", dir: "c-with-a-longer-directory-name", files: map[string]string{"s/a_first.go": others[1], "s/m_target.go": target, "s/asub/q.go": subpkg(others[0], "asub"), "s/zsub/q.go": subpkg(others[2%len(others)], "zsub")}},
		// test files beside the target: with test loading the package is visited twice (p and p [p.test])
		{name: "with-unrelated-in-package-test-file", dir: "f", files: map[string]string{"s/m_target.go": target, "s/util_test.go": "package s\n\nimport \"testing\"\n\nfunc TestNothing(t *testing.T) {}\n"}},
		{name: "with-external-test-package-and-api-test-file", dir: "g", files: map[string]string{"s/m_target.go": target, "s/ext_test.go": "package s_test\n\nimport \"testing\"\n\nfunc TestExt(t *testing.T) {}\n",
			"s/zz_api_test.go": others[1]}},
		// the target lives in a package that is processed AFTER another package with several files: compared with the same
		// sub-package compiled without the others
		{name: "sub-package-alone", dir: "h", group: "sub", target: "zsub/m_target.go", files: map[string]string{"s/zsub/m_target.go": subpkg(target, "zsub")}},
		{name: "sub-package-after-a-package-with-two-files", dir: "i", group: "sub", target: "zsub/m_target.go", files: map[string]string{"s/a_first.go": others[0], "s/b_second.go": others[1],
			"s/zsub/m_target.go": subpkg(target, "zsub")}},
		{name: "sub-package-after-a-package-with-nothing-to-optimise", dir: "j", group: "sub", target: "zsub/m_target.go", files: map[string]string{
			"s/a_first.go": "package s\n\nimport . \"github.com/goghcrow/go-co\"\n\nfunc Tiny() Iter[int] {\n\tYield(1)\n\treturn nil\n}\n", "s/zsub/m_target.go": subpkg(target, "zsub"), "s/zsub/z_other.go": subpkg(others[0], "zsub")}},
		// a _test.go generator whose last branch panics (the termination check decides whether a trailing Normal is appended),
		// alone and beside an unrelated non-test generator file that also triggers termination checks
		{name: "panic-terminated-test-file-alone", dir: "k", group: "ptest", target: "t_test.go", files: map[string]string{"s/t_test.go": c15PanicTestFile, "s/plain.go": "package s\n\nfunc Plain() int { return 1 }\n"}},
		{name: "panic-terminated-test-file-beside-generator-file", dir: "l", group: "ptest", target: "t_test.go", files: map[string]string{"s/t_test.go": c15PanicTestFile, "s/plain.go": "package s\n\nfunc Plain() int { return 1 }\n", "s/fib.go": c15FibFile}},
		{name: "gomaxprocs-1", dir: "d", files: map[string]string{"s/m_target.go": target, "s/z_last.go": others[0]}, env: []string{"GOMAXPROCS=1"}},
		{name: "stale-output-and-rerun", dir: "e", files: map[string]string{"s/m_target.go": target}, runs: 2, pre: func(dir string) {
			// outputs of an earlier run of a DIFFERENT program are present on disk
			_ = writeFiles(dir, map[string]string{"o/m_target.go": others[0], "o_tmp/m_target.go": others[1], "o/stale_extra.go": "package s\n",
				// debris of a killed run in the temporary directory: no source file derives it, it must not reach the output
				"o_tmp/zz_stale.go": "package s\n\nimport ʂɘʠ \"github.com/goghcrow/go-co/seq\"\n\nfunc ZzStale() ʂɘʠ.Iterator[int] {\n\treturn ʂɘʠ.Start[int](ʂɘʠ.Normal[int]())\n}\n"})
		}},
	}
	outputs := map[string]string{}
	groupOf := map[string]string{}
	var order []string
	for _, c := range cfgs {
		dir := filepath.Join(base, c.dir)
		files := rs.tools.moduleFiles("vt")
		for k, v := range c.files {
			files[k] = v
		}
		if err := writeFiles(dir, files); err != nil {
			rs.infraProblem(err.Error())
			return nil
		}
		if c.pre != nil {
			c.pre(dir)
		}
		runs := c.runs
		if runs == 0 {
			runs = 1
		}
		for i := 0; i < runs; i++ {
			r := runCmd(dir, 3*time.Minute, c.env, rs.tools.cocompile, "s", "o")
			if r.code != 0 {
				// acceptance belongs to C11; here the case is dropped
				rs.mu.Lock()
				rs.dropped++
				rs.casualties["compile:"+normDiag(r.out)]++
				rs.mu.Unlock()
				return nil
			}
			tp := c.target
			if tp == "" {
				tp = "m_target.go"
			}
			b, err := os.ReadFile(filepath.Join(dir, "o", tp))
			if err != nil {
				return &violationT{Kind: "text", Signature: "missing-output:" + c.name, What: fmt.Sprintf("configuration %s: no output file for the target", c.name)}
			}
			key := c.name
			if runs > 1 {
				key = fmt.Sprintf("%s#%d", c.name, i+1)
			}
			outputs[key] = string(b)
			groupOf[key] = c.group
			order = append(order, key)
		}
		if _, err := os.Stat(filepath.Join(dir, "o", "zz_stale.go")); err == nil {
			return &violationT{Kind: "text", Signature: "stale-temp-file-copied", What: fmt.Sprintf("configuration %s: a file left in the temporary directory by an earlier (killed) run was optimised and written to the output directory as o/zz_stale.go", c.name)}
		}
		if _, err := os.Stat(filepath.Join(dir, "o_tmp")); err == nil && c.name != "stale-output-and-rerun" {
			// leftover temp dir is C16's concern in go:generate mode; for Compile it must be removed too
			return &violationT{Kind: "text", Signature: "tmp-left:" + c.name, What: fmt.Sprintf("configuration %s: temporary directory o_tmp left behind", c.name)}
		}
	}
	ref := outputs[order[0]]
	firstOf := map[string]string{}
	for _, k := range order {
		if _, ok := firstOf[groupOf[k]]; !ok {
			firstOf[groupOf[k]] = k
		}
	}
	for _, k := range order[1:] {
		ref := outputs[firstOf[groupOf[k]]]
		if outputs[k] != ref {
			i := 0
			for i < len(ref) && i < len(outputs[k]) && ref[i] == outputs[k][i] {
				i++
			}
			lo := i - 80
			if lo < 0 {
				lo = 0
			}
			hi := func(s string) string {
				e := i + 80
				if e > len(s) {
					e = len(s)
				}
				return s[lo:e]
			}
			return &violationT{Kind: "text", Signature: "bytes-differ:" + k,
				What:   fmt.Sprintf("generated file of the same source differs between configuration %q and %q at byte %d: %q vs %q", firstOf[groupOf[k]], k, i, hi(ref), hi(outputs[k])),
				Output: ref, Extra: map[string]any{"other_output": outputs[k]}}
		}
	}
	if h := helperClash(ref); h != "" {
		return &violationT{Kind: "text", Signature: "helper-clash", What: "generated helper identifier " + h + " is defined twice in one function", Output: ref}
	}
	// the output of the richest configuration must build (uniqueness of helper names)
	if r := runCmd(filepath.Join(base, "b"), 5*time.Minute, nil, "go", "build", "-gcflags=-e", "./o"); r.code != 0 {
		if strings.Contains(r.out, "redeclared") || strings.Contains(r.out, "no new variables") {
			return &violationT{Kind: "text", Signature: "helper-redeclared", What: "generated helpers clash: " + normDiag(r.out), Output: outputs["among-files"]}
		}
		rs.mu.Lock()
		rs.casualties["build-o:"+normDiag(r.out)]++
		rs.mu.Unlock()
	}
	return nil
}

func countStmts(p *Program, kinds ...string) int {
	n := 0
	for _, d := range p.Decls {
		walkStmts(d.Body, func(s *Stmt) {
			for _, k := range kinds {
				if s.K == k {
					n++
				}
			}
		})
	}
	return n
}

func init() {
	checks["C15"] = &checkT{run: func(rs *runState) {
		rs.rule("a target file (6 programs of the range/delegation/scoping profiles: many sequential and nested range loops and function literals, so unique-name generation and comment attachment are exercised) " +
			"compiled in production mode in 13 configurations: alone; a panic-terminated _test.go generator alone / beside an unrelated generator file; in a sub-package alone / after a package with two files / after a package with nothing to optimise and beside another file; beside an unrelated in-package _test.go file; beside an external-test-package file and a _test.go file that uses the API; among 2 other files sorting before/after; among other files and 2 sub-packages in a differently named directory; GOMAXPROCS=1; " +
			"with stale o/ and o_tmp/ content of a different program present, twice in a row; oracle: the bytes of the target's generated file are identical in all configurations, no helper identifier " +
			"is defined twice in one function, the output builds; non-trivial = the target has >= 2 range loops in one program and the other files contain range loops; distinct by hash(target)")
		n := rs.vol(16, 300)
		var cases []c15Case
		k := 0
		err := drawAll(rs.seed, n, func(t *rapidT) {
			sp := scopingProfile()
			sp.globals = false // the configurations of this check are written file by file, without the shared globals file
			profs := []*profile{rangeProfile(), delegationProfile(), sp}
			mk := func(cnt int) []*Program {
				var ps []*Program
				for i := 0; i < cnt; i++ {
					k++
					ps = append(ps, genProgram(t, profs[rapidInt(t, 0, len(profs)-1, "prof")], fmt.Sprintf("P%05d", k)))
				}
				return ps
			}
			cs := c15Case{Target: mk(6), Style: importStyles[rapidInt(t, 0, len(importStyles)-1, "style")]}
			for i := 0; i < 3; i++ {
				cs.Others = append(cs.Others, mk(1+rapidInt(t, 0, 3, "nother")))
			}
			cases = append(cases, cs)
		})
		if err != nil {
			rs.infraProblem(err.Error())
			return
		}
		rs.programs = k
		var wg sync.WaitGroup
		sem := make(chan struct{}, 8)
		for i, cs := range cases {
			wg.Add(1)
			go func(i int, cs c15Case) {
				defer wg.Done()
				sem <- struct{}{}
				defer func() { <-sem }()
				v := rs.runC15Case(i, cs)
				ranges, otherRanges := 0, 0
				for _, p := range cs.Target {
					if c := countStmts(p, "range", "crange", "yieldfrom"); c > ranges {
						ranges = c
					}
				}
				for _, o := range cs.Others {
					for _, p := range o {
						otherRanges += countStmts(p, "range", "crange", "yieldfrom")
					}
				}
				h := ""
				for _, p := range cs.Target {
					h += progHash(p)
				}
				rs.eval(h, ranges >= 2 && otherRanges >= 1, "configurations:13")
				if i%7 == 0 {
					src, _ := renderFile("S", "s", cs.Style, cs.Target[:1], nil)
					rs.sample(map[string]any{"target_first_program": src, "other_files": len(cs.Others), "max_range_like_loops_in_one_program": ranges})
				}
				if v != nil {
					v.Extra = mergeExtra(v.Extra, map[string]any{"case": cs})
					v.Style = cs.Style
					rs.addViolation(v)
				}
			}(i, cs)
		}
		wg.Wait()
	}}
}

func mergeExtra(a, b map[string]any) map[string]any {
	if a == nil {
		a = map[string]any{}
	}
	for k, v := range b {
		a[k] = v
	}
	return a
}

// ---- C16: go:generate mode ------------------------------------------------------------------------

type c16Layout struct {
	AtRoot    bool         `json:"at_module_root"`
	CoFiles   [][]*Program `json:"co_files"`      // programs per *_co.go file
	TestFile  []*Program   `json:"co_test_file"`  // programs in x_co_test.go (may be empty)
	Unused    string       `json:"unused_co_file"` // "", "blank-import", "no-import": a *_co.go file that does not use the API
	Sibling   bool         `json:"plain_sibling"` // plain file providing a type/helper used by the generators
	SubPkg    []*Program   `json:"sub_package"`   // programs of a sub-package with its own co file (may be empty)
	Style     importStyle  `json:"style"`
	Names     []string     `json:"co_file_base_names"` // base names of the co files (may contain the marker `_co` or dots inside)
	TestName  string       `json:"co_test_file_base_name"`
	// ExtEta: the external test package's closure over a function of the package under test has the eta-reducible form
	// (known finding cogen-external-test-eta-not-idempotent; false = the closure adds 0 and is not reducible)
	ExtEta bool `json:"external_test_closure_is_eta_reducible,omitempty"`
}

func snapshot(dir string) map[string]string {
	out := map[string]string{}
	_ = filepath.WalkDir(dir, func(p string, d fs.DirEntry, err error) error {
		if err != nil {
			return nil
		}
		rel, _ := filepath.Rel(dir, p)
		if d.IsDir() {
			out[rel+"/"] = "dir"
			return nil
		}
		b, _ := os.ReadFile(p)
		h := sha256.Sum256(b)
		out[rel] = hex.EncodeToString(h[:8])
		return nil
	})
	return out
}

const c16KnownWhat = "an external test package (package p_test) whose co test file contains a closure of the eta-reducible form over a function of the package under test " +
	"(`f := func() int { return pkg.EmbedLen() }`) is not idempotent under cogen: the first run leaves the closure as written (the optimise stage cannot resolve pkg.EmbedLen before the package's own " +
	"derived files exist), the second run rewrites it to `f := pkg.EmbedLen`, so ext_test.go changes on the second run (rewriter/compile.go GoGen stage 2 loads the temporary directory while the real package is still incomplete)"

var reBlankImport = regexp.MustCompile(`(?m)^\s*(?:import\s+)?_\s+"([^"]+)"`)

const genHeader = "//go:build !co\n\n// Code generated by github.com/goghcrow/go-co DO NOT EDIT.\n"

func coHeader(src string) string {
	return "//go:build co\n\n//go:generate cogen\n\n" + src
}

// refFile renders the reference rendering of the programs under renamed identifiers (P.. -> Q..)
func refFile(pkg string, progs []*Program) (string, error) {
	var rp []*Program
	for _, p := range progs {
		rp = append(rp, renameProgram(p, "Q"+p.Name[1:]))
	}
	src, err := renderFile("R", pkg, importStyle{}, rp, nil)
	return src, err
}

// testFile: generated-from-source test asserting compiled == reference for every entry
func c16TestFile(pkg string, st importStyle, progs []*Program, own []*Program) (string, error) {
	// own: small generators living in the test file itself (rendered as S)
	var sb strings.Builder
	src, err := renderFile("S", pkg, st, own, []string{"\"testing\"", "\"fmt\""})
	if err != nil {
		return "", err
	}
	sb.WriteString(src)
	// a declaration with a directive doc comment right AFTER the generators of the file: whatever the tool does to keep the
	// //go:debug line and the output comment of the Example below, this directive has to stay on its declaration
	sb.WriteString("\n//go:noinline\nfunc twiceNoInline(x int) int { return 2 * x }\n\nvar _ = twiceNoInline\n")
	sb.WriteString("\ntype iterI[T any] interface {\n\tMoveNext() bool\n\tCurrent() T\n}\n\n")
	sb.WriteString("func drainT[T any](mk func() iterI[T]) (out []string) {\n\ttr.Reset(400)\n\tdefer func() {\n\t\tif r := recover(); r != nil {\n\t\t\tout = append(out, fmt.Sprint(\"panic:\", r))\n\t\t}\n\t\tout = append(out, tr.T...)\n\t}()\n\tit := mk()\n\tfor i := 0; i < 40 && it.MoveNext(); i++ {\n\t\tout = append(out, tr.Fmt(it.Current()))\n\t}\n\treturn\n}\n\n")
	sb.WriteString("func TestGeneratedAgainstReference(t *testing.T) {\n")
	for _, p := range append(append([]*Program{}, progs...), own...) {
		for _, e := range p.Entries {
			if e.Kind != "drive" {
				continue
			}
			for _, in := range e.Inputs {
				call := e.Call
				for i := len(in) - 1; i >= 0; i-- {
					call = strings.ReplaceAll(call, fmt.Sprintf("$%d", i), fmt.Sprint(in[i]))
				}
				s := strings.ReplaceAll(call, "$P", "")
				r := strings.ReplaceAll(strings.ReplaceAll(call, "$P", ""), p.Name, "Q"+p.Name[1:])
				fmt.Fprintf(&sb, "\tif a, b := drainT[%s](func() iterI[%s] { return %s }), drainT[%s](func() iterI[%s] { return %s }); fmt.Sprint(a) != fmt.Sprint(b) {\n\t\tt.Errorf(\"%%s: compiled %%v reference %%v\", %q, a, b)\n\t}\n", e.Elem, e.Elem, s, e.Elem, e.Elem, r, s)
			}
		}
	}
	sb.WriteString("}\n")
	// an Example: `go test` only runs it because of its output comment, which is a free-floating comment inside the body
	if len(own) > 0 && len(own[0].Entries) > 0 && !knownExclusions()["example-output-comment-dropped"] {
		e := own[0].Entries[0]
		if e.Kind == "drive" && len(e.Inputs) > 0 {
			call := e.Call
			in := e.Inputs[0]
			for i := len(in) - 1; i >= 0; i-- {
				call = strings.ReplaceAll(call, fmt.Sprintf("$%d", i), fmt.Sprint(in[i]))
			}
			call = strings.ReplaceAll(call, "$P", "")
			fmt.Fprintf(&sb, "\nfunc ExampleDrain() {\n\tfmt.Println(len(drainT[%s](func() iterI[%s] { return %s })) >= 0)\n\t// a comment in the middle\n\tfmt.Println(\"done\")\n\t// Output:\n\t// true\n\t// done\n}\n", e.Elem, e.Elem, call)
		}
	}
	return sb.String(), nil
}

var reListedTest = regexp.MustCompile(`(?m)^(Test|Benchmark|Fuzz|Example)\S*$`)

// listedTests: the names `go test -list` reports per package ("ok <pkg>" lines separate the packages): tests, benchmarks, fuzz
// targets and the examples that have an output comment (the others are compiled, never run)
func listedTests(root string, tags ...string) (string, *cmdResult) {
	args := append([]string{"test", "-vet=off", "-count=1", "-list", ".*"}, tags...)
	args = append(args, "./...")
	r := runCmd(root, 10*time.Minute, nil, "go", args...)
	if r.code != 0 {
		return "", &r
	}
	// packages are tested in parallel: their blocks arrive in any order; the names of a package precede its "ok <pkg>" line
	byPkg := map[string][]string{}
	var cur []string
	for _, l := range strings.Split(r.out, "\n") {
		l = strings.TrimSpace(l)
		if reListedTest.MatchString(l) {
			cur = append(cur, l)
		} else if f := strings.Fields(l); len(f) >= 2 && (f[0] == "ok" || f[0] == "?") {
			sort.Strings(cur)
			byPkg[f[1]] = cur
			cur = nil
		}
	}
	var out []string
	for _, pkg := range sortedKeys(byPkg) {
		out = append(out, pkg+": "+strings.Join(byPkg[pkg], " "))
	}
	return strings.Join(out, "\n"), nil
}

func (rs *runState) runC16Layout(idx int, lay c16Layout) *violationT {
	base := filepath.Join(rs.tools.scratch, fmt.Sprintf("c16-%04d", idx))
	defer func() {
		if os.Getenv("VERIF_KEEP") == "" {
			_ = os.RemoveAll(base)
		}
	}()
	mod := "vt"
	files := rs.tools.moduleFiles(mod)
	pkgDir := "pkg/"
	pkgName := "pkg"
	if lay.AtRoot {
		pkgDir = ""
		pkgName = "vt"
	}
	expected := map[string]bool{}
	var all []*Program
	for i, progs := range lay.CoFiles {
		src, err := renderFile("S", pkgName, lay.Style, progs, nil)
		if err != nil {
			rs.infraProblem(err.Error())
			return nil
		}
		name := fmt.Sprintf("f%d", i)
		if i < len(lay.Names) && lay.Names[i] != "" {
			name = lay.Names[i]
		}
		files[pkgDir+name+"_co.go"] = coHeader(src)
		expected[pkgDir+name+".go"] = true
		all = append(all, progs...)
	}
	rsrc, err := refFile(pkgName, append(append([]*Program{}, all...), lay.TestFile...))
	if err != nil {
		rs.infraProblem(err.Error())
		return nil
	}
	files[pkgDir+"zref.go"] = rsrc
	tsrc, err := c16TestFile(pkgName, lay.Style, all, lay.TestFile)
	if err != nil {
		rs.infraProblem(err.Error())
		return nil
	}
	tn := "all"
	if lay.TestName != "" {
		tn = lay.TestName
	}
	// a //go:debug directive (only legal in test files and main packages) sets a runtime default: panic(nil) recovers as nil
	files[pkgDir+tn+"_co_test.go"] = "//go:build co\n\n//go:generate cogen\n\n//go:debug panicnil=1\n\n" + tsrc +
		"\nfunc TestDebugDirective(t *testing.T) {\n\tdefer func() {\n\t\tif r := recover(); r != nil {\n\t\t\tt.Fatalf(\"recover() = %v: the //go:debug panicnil=1 directive of the source file is not in effect\", r)\n\t\t}\n\t}()\n\tpanic(nil)\n}\n"
	expected[pkgDir+tn+"_test.go"] = true
	switch lay.Unused {
	case "blank-import":
		files[pkgDir+"unused_co.go"] = "//go:build co\n\npackage " + pkgName + "\n\nimport _ \"github.com/goghcrow/go-co\"\n\nfunc UnusedHelper() int { return 1 }\n"
	case "no-import":
		files[pkgDir+"plain_co.go"] = "//go:build co\n\npackage " + pkgName + "\n\nfunc PlainHelper() int { return 2 }\n"
	}
	if lay.Sibling {
		files[pkgDir+"types.go"] = "package " + pkgName + "\n\ntype Item struct{ N int }\n\nfunc MkItem(n int) Item { return Item{N: n * 2} }\n\n" +
			"type Shape interface{ Area() int }\n\ntype Sq struct{ S int }\n\nfunc (s Sq) Area() int { return s.S * s.S }\n"
		files[pkgDir+"items_co.go"] = coHeader("package " + pkgName + "\n\nimport . \"github.com/goghcrow/go-co\"\n\nfunc Items(n int) Iter[Item] {\n\tfor i := 0; i < n; i++ {\n\t\tYield(MkItem(i))\n\t}\n\treturn nil\n}\n\nfunc SumItems(n int) (s int) {\n\tfor it := range Items(n) {\n\t\ts += it.N\n\t}\n\treturn\n}\n\n" +
			// a closure of the eta-reducible FORM whose type differs from the callee's, over types of a plain sibling file
			// (which are invalid types while the optimise stage looks at the temporary directory)
			"func area(s Shape) int { return s.Area() }\n\nvar AreaSq func(Sq) int = func(s Sq) int { return area(s) }\n")
		files[pkgDir+"items_test.go"] = "package " + pkgName + "\n\nimport \"testing\"\n\nfunc TestItems(t *testing.T) {\n\tif got := SumItems(4); got != 12 {\n\t\tt.Fatalf(\"SumItems(4) = %d\", got)\n\t}\n\tif got := AreaSq(Sq{3}); got != 9 {\n\t\tt.Fatalf(\"AreaSq = %d\", got)\n\t}\n}\n"
		expected[pkgDir+"items.go"] = true
	}
	// a co file that is edited between two runs of the tool (see the regeneration step below); nothing refers to it
	shrinkLong := coHeader("package " + pkgName + "\n\nimport . \"github.com/goghcrow/go-co\"\n\nfunc ShrinkA(n int) Iter[int] {\n\tfor i := 0; i < n; i++ {\n\t\tYield(i)\n\t\tif i%2 == 0 {\n\t\t\tYield(i * 2)\n\t\t}\n\t}\n\treturn nil\n}\n\n" +
		"func ShrinkB(xs []string) Iter[string] {\n\tfor i, x := range xs {\n\t\tswitch {\n\t\tcase i == 0:\n\t\t\tYield(\"first:\" + x)\n\t\tcase len(x) > 3:\n\t\t\tYield(\"long:\" + x)\n\t\tdefault:\n\t\t\tYield(x)\n\t\t}\n\t}\n\tYieldFrom(ShrinkC(len(xs)))\n\treturn nil\n}\n\n" +
		"func ShrinkC(n int) Iter[string] {\n\tfor n > 0 {\n\t\tn--\n\t\tYield(\"c\")\n\t}\n\treturn nil\n}\n")
	shrinkShort := coHeader("package " + pkgName + "\n\nimport . \"github.com/goghcrow/go-co\"\n\nfunc ShrinkA(n int) Iter[int] {\n\tYield(n)\n\treturn nil\n}\n")
	// a file that is compiled with the co tag and uses the API but is NOT named *_co.go: not an input of the tool
	files[pkgDir+"cotagged.go"] = "//go:build co\n\npackage " + pkgName + "\n\nimport . \"github.com/goghcrow/go-co\"\n\nfunc CoTagOnly(n int) Iter[int] {\n\tfor i := 0; i < n; i++ {\n\t\tYield(i)\n\t}\n\treturn nil\n}\n"
	files[pkgDir+"shrink_co.go"] = shrinkLong
	// hand-written iterators over the runtime API live in plain files (no co tag, no go-co import, only .../seq): the tool must
	// neither rewrite nor re-print them (a plain non-test file and a plain test file)
	files[pkgDir+"handseq.go"] = "package " + pkgName + "\n\nimport \"github.com/goghcrow/go-co/seq\"\n\n// HandCount is written by hand over the runtime API.\nfunc HandCount(n int) seq.Iterator[int] {\n\ti := 0\n\treturn seq.Start(seq.While(func() bool { return i < n }, seq.Delay(func() seq.Seq[int] {\n\t\ti++\n\t\treturn seq.Bind(i, seq.Normal[int])\n\t})))\n}\n"
	files[pkgDir+"handseq_test.go"] = "package " + pkgName + "\n\nimport (\n\t\"testing\"\n\n\t\"github.com/goghcrow/go-co/seq\"\n)\n\nfunc TestHandCount(t *testing.T) {\n\tvar it seq.Iterator[int] = HandCount(3)\n\tsum := 0\n\tfor it.MoveNext() {\n\t\tsum += it.Current()\n\t}\n\tif sum != 6 {\n\t\tt.Fatalf(\"sum = %d\", sum)\n\t}\n}\n"
	expected[pkgDir+"shrink.go"] = true
	// directive comments on bystander declarations of a processed file (go:embed needs its directive to keep the value;
	// the file also contains a generator literal, whose attached source comment makes the file carry a comment list)
	files[pkgDir+"embed_data.txt"] = "embedded payload\n"
	files[pkgDir+"embed_co.go"] = coHeader("package " + pkgName + "\n\nimport (\n\t_ \"crypto/md5\"\n\t_ \"crypto/sha1\"\n\t_ \"embed\"\n\t_ \"image/gif\"\n\n\t. \"github.com/goghcrow/go-co\"\n)\n\n//go:embed embed_data.txt\nvar EmbeddedData string\n\n// EmbedGen has a doc comment.\n//\n//go:noinline\nfunc EmbedGen(n int) Iter[string] {\n\tf := func() Iter[string] {\n\t\tYield(EmbeddedData)\n\t\treturn nil\n\t}\n\tfor i := 0; i < n; i++ {\n\t\tYieldFrom(f())\n\t}\n\treturn nil\n}\n")
	files[pkgDir+"embed_test.go"] = "package " + pkgName + "\n\nimport \"testing\"\n\nfunc TestEmbeddedData(t *testing.T) {\n\tif EmbeddedData != \"embedded payload\\n\" {\n\t\tt.Fatalf(\"EmbeddedData = %q: the go:embed directive of a bystander declaration was lost\", EmbeddedData)\n\t}\n\tn := 0\n\tfor it := EmbedGen(2); it.MoveNext(); n++ {\n\t\tif it.Current() != EmbeddedData {\n\t\t\tt.Fatalf(\"EmbedGen yielded %q\", it.Current())\n\t\t}\n\t}\n\tif n != 2 {\n\t\tt.Fatalf(\"EmbedGen yielded %d values\", n)\n\t}\n}\n"
	expected[pkgDir+"embed.go"] = true
	// the same for a directive that sits on a spec of a parenthesised group, in a file whose only generator is a literal and
	// that has no other directive
	files[pkgDir+"embedgrp_co.go"] = coHeader("package " + pkgName + "\n\nimport (\n\t_ \"embed\"\n\n\t. \"github.com/goghcrow/go-co\"\n)\n\nvar (\n\t// GroupedData is filled in by the go command.\n\t//go:embed embed_data.txt\n\tGroupedData string\n\n\t//go:embed embed_data.txt\n\tGroupedBytes []byte\n)\n\n// GroupedWords is a generator literal.\nvar GroupedWords = func(n int) Iter[string] {\n\tfor i := 0; i < n; i++ {\n\t\tYield(GroupedData)\n\t}\n\treturn nil\n}\n")
	files[pkgDir+"embedgrp_test.go"] = "package " + pkgName + "\n\nimport \"testing\"\n\nfunc TestGroupedData(t *testing.T) {\n\tif GroupedData != \"embedded payload\\n\" || string(GroupedBytes) != GroupedData {\n\t\tt.Fatalf(\"GroupedData = %q, GroupedBytes = %q: a go:embed directive inside a declaration group was lost\", GroupedData, GroupedBytes)\n\t}\n\tn := 0\n\tfor it := GroupedWords(2); it.MoveNext(); n++ {\n\t}\n\tif n != 2 {\n\t\tt.Fatalf(\"GroupedWords yielded %d values\", n)\n\t}\n}\n"
	expected[pkgDir+"embedgrp.go"] = true
	// types declared in a PLAIN sibling file, used by a co file with type arguments / literal keys that are the file's only
	// use of an import (the optimise stage type-checks the derived files: what it cannot resolve must not cost an import)
	files[pkgDir+"plaintypes.go"] = "package " + pkgName + "\n\ntype Boxed[T any] struct{ V T }\n\ntype NameMap map[int]string\n"
	files[pkgDir+"plainuse_co.go"] = coHeader("package " + pkgName + "\n\nimport (\n\t\"time\"\n\t\"unicode\"\n\n\t. \"github.com/goghcrow/go-co\"\n)\n\nfunc Durations(g Boxed[time.Duration]) Iter[int] {\n\tYield(int(g.V))\n\treturn nil\n}\n\nvar Table = NameMap{unicode.MaxASCII: \"x\"}\n")
	files[pkgDir+"plainuse_test.go"] = "package " + pkgName + "\n\nimport (\n\t\"testing\"\n\t\"time\"\n)\n\nfunc TestPlainTypes(t *testing.T) {\n\tn := 0\n\tfor it := Durations(Boxed[time.Duration]{V: 3}); it.MoveNext(); n += it.Current() {\n\t}\n\tif n != 3 || Table[127] != \"x\" {\n\t\tt.Fatalf(\"n = %d, Table = %v\", n, Table)\n\t}\n}\n"
	expected[pkgDir+"plainuse.go"] = true
	// an external test package (package <pkg>_test) with a generator of its own and a closure over a function of the
	// package under test
	importPath := mod
	if pkgDir != "" {
		importPath = mod + "/" + strings.TrimSuffix(pkgDir, "/")
	}
	call := "return pkg.EmbedLen() + 0"
	if lay.ExtEta {
		call = "return pkg.EmbedLen()"
	}
	// (EmbedLen lives in a co file: without the tag it only exists once embed.go has been derived)
	files[pkgDir+"embed_co.go"] += "\nfunc EmbedLen() int { return 17 }\n"
	files[pkgDir+"ext_co_test.go"] = coHeader("package " + pkgName + "_test\n\nimport (\n\t\"testing\"\n\n\t. \"github.com/goghcrow/go-co\"\n\tpkg \"" + importPath + "\"\n)\n\nfunc extGen(n int) Iter[int] {\n\tf := func() int { " + call + " }\n\tfor i := 0; i < n; i++ {\n\t\tYield(f() + i)\n\t}\n\treturn nil\n}\n\nfunc TestExternal(t *testing.T) {\n\tsum := 0\n\tfor v := range extGen(3) {\n\t\tsum += v\n\t}\n\tif sum != 3*17+3 {\n\t\tt.Fatalf(\"sum = %d\", sum)\n\t}\n}\n")
	expected[pkgDir+"ext_test.go"] = true
	subDir := ""
	if len(lay.SubPkg) > 0 {
		subDir = pkgDir + "sub/"
		src, err := renderFile("S", "sub", lay.Style, lay.SubPkg, nil)
		if err != nil {
			rs.infraProblem(err.Error())
			return nil
		}
		files[subDir+"g_co.go"] = coHeader(src)
		expected[subDir+"g.go"] = true
		tinyR := &Program{Name: "P9sub", Profile: "tiny"}
		tinyR.Decls = []*Decl{{Kind: "gen", Name: "P9subG", Params: []Param{{"a", "int"}}, Elem: "int", Body: []*Stmt{yS(v("a")), yS(bin("+", v("a"), lit(1)))}}}
		rs2, err := refFile("sub", append(append([]*Program{}, lay.SubPkg...), tinyR))
		if err != nil {
			rs.infraProblem(err.Error())
			return nil
		}
		files[subDir+"zref.go"] = rs2
		tiny := &Program{Name: "P9sub", Profile: "tiny"}
		tiny.Decls = []*Decl{{Kind: "gen", Name: "P9subG", Params: []Param{{"a", "int"}}, Elem: "int", Body: []*Stmt{yS(v("a")), yS(bin("+", v("a"), lit(1)))}}}
		tiny.Entries = []*Entry{{Name: "P9subG", Kind: "drive", Call: "$PP9subG($0)", Elem: "int", Inputs: [][]int{{1}}}}
		ts2, err := c16TestFile("sub", lay.Style, lay.SubPkg, []*Program{tiny})
		if err != nil {
			rs.infraProblem(err.Error())
			return nil
		}
		files[subDir+"all_co_test.go"] = coHeader(ts2)
		expected[subDir+"all_test.go"] = true
	}
	root := filepath.Join(base, "m")
	if err := writeFiles(root, files); err != nil {
		rs.infraProblem(err.Error())
		return nil
	}
	if idx%2 == 1 {
		// the plain sibling that declares the types is a symbolic link (the go tool treats it as an ordinary file of the package)
		real := filepath.Join(root, "linked", "plaintypes.txt")
		_ = os.MkdirAll(filepath.Dir(real), 0o755)
		link := filepath.Join(root, pkgDir+"plaintypes.go")
		if err := os.Rename(link, real); err == nil {
			rel, _ := filepath.Rel(filepath.Dir(link), real)
			if err := os.Symlink(rel, link); err != nil {
				rs.infraProblem(err.Error())
				return nil
			}
		}
	}
	// the layout must be valid Go under the co tag before the tool runs (soundness of my generator and
	// of the reference file): anything wrong here is an infrastructure problem, never a violation
	if r := runCmd(root, 5*time.Minute, nil, "go", "build", "-gcflags=-e", "-tags", "co", "./..."); r.code != 0 {
		rs.infraProblem("C16 layout does not build with the co tag before cogen ran:\n" + lastLines(r.out, 20))
		return nil
	}
	if r := runCmd(root, 5*time.Minute, nil, "go", "test", "-vet=off", "-tags", "co", "-count=1", "-run", "^$", "./..."); r.code != 0 {
		rs.infraProblem("C16 layout's tests do not build with the co tag before cogen ran:\n" + lastLines(r.out, 20))
		return nil
	}
	testsBefore, lr := listedTests(root, "-tags", "co")
	if lr != nil {
		rs.infraProblem("C16 layout: go test -list fails with the co tag before cogen ran:\n" + lastLines(lr.out, 20))
		return nil
	}
	before := snapshot(base)
	// debris of a killed earlier run: a temporary directory with a generated-looking file that no source file derives
	staleTmp := filepath.Join(root, pkgDir+"_co_tmp")
	_ = os.MkdirAll(staleTmp, 0o755)
	_ = os.WriteFile(filepath.Join(staleTmp, "zz_stale.go"), []byte("package "+pkgName+"\n\nimport ʂɘʠ \"github.com/goghcrow/go-co/seq\"\n\nfunc ZzStale() ʂɘʠ.Iterator[int] {\n\treturn ʂɘʠ.Start[int](ʂɘʠ.Normal[int]())\n}\n"), 0o644)
	gofile := "f0_co.go"
	if len(lay.Names) > 0 && lay.Names[0] != "" {
		gofile = lay.Names[0] + "_co.go"
	}
	// the tool is run in the package directory only: it loads ./..., so the files of the sub-package are
	// derived by the same run (running it again inside the sub-package is part of the idempotence step)
	secondRun := false
	run := func() *cmdResult {
		dirs := []string{filepath.Join(root, pkgDir)}
		if subDir != "" && secondRun {
			dirs = append(dirs, filepath.Join(root, subDir))
		}
		for _, d := range dirs {
			r := runCmd(d, 3*time.Minute, []string{"GOFILE=" + gofile, "GOPACKAGE=" + pkgName}, rs.tools.cogen)
			if r.code != 0 {
				return &r
			}
		}
		return nil
	}
	mk := func(sig, what string) *violationT {
		return &violationT{Kind: "layout", Signature: sig, What: what}
	}
	if r := run(); r != nil {
		// the layout is valid (it built with the co tag above): a tool that fails on it derives nothing
		return mk("cogen-failed:"+normDiag(r.out), "cogen failed on a valid package layout (also C11's event): "+lastLines(r.out, 10))
	}
	after := snapshot(base)
	var created, modified, removed []string
	for k, h := range after {
		if bh, ok := before[k]; !ok {
			created = append(created, k)
		} else if bh != h {
			modified = append(modified, k)
		}
	}
	for k := range before {
		if _, ok := after[k]; !ok {
			removed = append(removed, k)
		}
	}
	sort.Strings(created)
	if len(modified) > 0 || len(removed) > 0 {
		return mk("modified-or-removed", fmt.Sprintf("cogen modified %v / removed %v", modified, removed))
	}
	got := map[string]bool{}
	for _, c := range created {
		got[strings.TrimPrefix(c, "m/")] = true
	}
	for e := range expected {
		if !got[e] {
			return mk("missing:"+normDigits(filepath.Base(e)), fmt.Sprintf("expected generated file %s was not written (created: %v)", e, created))
		}
	}
	for c := range got {
		if !expected[c] {
			return mk("unexpected:"+normDigits(strings.TrimSuffix(c, "/")), fmt.Sprintf("cogen created/left behind %q which is not a derived file (created: %v)", c, created))
		}
	}
	for e := range expected {
		b, _ := os.ReadFile(filepath.Join(root, e))
		if !strings.HasPrefix(string(b), genHeader) {
			return mk("header", fmt.Sprintf("%s does not start with the '!co' constraint and the generated-code header: %q", e, firstN(string(b), 120)))
		}
	}
	// side-effect imports of a co file are part of its meaning: each must be present in the derived file
	for e := range expected {
		src := strings.TrimSuffix(e, ".go") + "_co.go"
		if strings.HasSuffix(e, "_test.go") {
			src = strings.TrimSuffix(e, "_test.go") + "_co_test.go"
		}
		sb, err1 := os.ReadFile(filepath.Join(root, src))
		db, err2 := os.ReadFile(filepath.Join(root, e))
		if err1 != nil || err2 != nil {
			continue
		}
		for _, m := range reBlankImport.FindAllStringSubmatch(string(sb), -1) {
			if !strings.Contains(string(db), "_ \""+m[1]+"\"") {
				return mk("blank-import-lost", fmt.Sprintf("%s imports %q for its side effects, the derived file %s does not", src, m[1], e))
			}
		}
	}
	if r := runCmd(root, 10*time.Minute, nil, "go", "build", "./..."); r.code != 0 {
		return mk("build:"+buildClass(normDiag(r.out)), "after cogen the module does not build without the co tag: "+lastLines(r.out, 8))
	}
	if r := runCmd(root, 10*time.Minute, nil, "go", "test", "-vet=off", "-count=1", "./..."); r.code != 0 {
		return mk("test", "after cogen the package tests fail without the co tag: "+lastLines(r.out, 12))
	}
	// "its tests pass": the tests that exist in the source must still be RUN (an Example whose output comment is lost compiles, is
	// skipped silently and the package still reports ok)
	if testsAfter, lr := listedTests(root); lr != nil {
		return mk("test-list", "after cogen `go test -list` fails without the co tag: "+lastLines(lr.out, 8))
	} else if testsAfter != testsBefore {
		return mk("tests-not-run", fmt.Sprintf("the tests that `go test` runs differ: from the sources (co tag) %q, from the derived files %q", testsBefore, testsAfter))
	}
	if r := runCmd(root, 10*time.Minute, nil, "go", "build", "-tags", "co", "./..."); r.code != 0 {
		return mk("co-tag-typecheck", "with the co tag the package no longer type-checks: "+lastLines(r.out, 8))
	}
	// idempotence
	snap1 := snapshot(base)
	secondRun = true
	if r := run(); r != nil {
		return mk("second-run", "second cogen run failed: "+normDiag(r.out))
	}
	snap2 := snapshot(base)
	for k, h := range snap2 {
		if snap1[k] != h {
			return mk("not-idempotent", fmt.Sprintf("second cogen run changed %s", k))
		}
	}
	for k := range snap1 {
		if _, ok := snap2[k]; !ok {
			return mk("not-idempotent", fmt.Sprintf("second cogen run removed %s", k))
		}
	}
	// regeneration after an edit: a co file is replaced by a much shorter version and the tool runs again over the
	// existing (longer) derived file; the result must be exactly what a generation without that stale file writes,
	// and nothing else may change
	secondRun = false
	shrinkCo, shrinkGo := filepath.Join(root, pkgDir+"shrink_co.go"), filepath.Join(root, pkgDir+"shrink.go")
	if err := os.WriteFile(shrinkCo, []byte(shrinkShort), 0o644); err != nil {
		rs.infraProblem(err.Error())
		return nil
	}
	if r := run(); r != nil {
		return mk("regenerate-run", "cogen failed after a co file was edited: "+normDiag(r.out))
	}
	over, _ := os.ReadFile(shrinkGo)
	snap3 := snapshot(base)
	for k, h := range snap3 {
		if snap2[k] != h && !strings.HasSuffix(k, "shrink_co.go") && !strings.HasSuffix(k, "shrink.go") {
			return mk("regenerate-touched-other", fmt.Sprintf("regeneration after editing shrink_co.go changed %s", k))
		}
	}
	_ = os.Remove(shrinkGo)
	if r := run(); r != nil {
		return mk("regenerate-run", "cogen failed after the derived file was deleted: "+normDiag(r.out))
	}
	fresh, _ := os.ReadFile(shrinkGo)
	if string(over) != string(fresh) {
		return mk("regenerate-over-stale", fmt.Sprintf("the derived file written over an existing (longer) one differs from a fresh generation: %d bytes vs %d bytes; tail %q", len(over), len(fresh), firstN(string(over[min(len(over), len(fresh)):]), 120)))
	}
	if !strings.HasPrefix(string(fresh), genHeader) || strings.Contains(string(fresh), "ShrinkB") {
		return mk("regenerate-content", "the regenerated derived file does not reflect the edited source: "+firstN(string(fresh), 200))
	}
	if r := runCmd(root, 10*time.Minute, nil, "go", "build", "./..."); r.code != 0 {
		return mk("build-after-regenerate", "after regenerating an edited co file the module does not build: "+lastLines(r.out, 8))
	}
	// an output of an earlier run that was touched afterwards (licence header prepended by a tool, line endings converted): it is
	// still recognisably generated, and the next run must produce what a fresh generation produces, whatever is on disk
	for _, variant := range []string{"header-prepended", "crlf"} {
		target := filepath.Join(root, pkgDir+"plainuse.go")
		fresh, err := os.ReadFile(target)
		if err != nil {
			break
		}
		touched := "// Copyright (c) the authors. All rights reserved.\n\n" + string(fresh)
		if variant == "crlf" {
			touched = strings.ReplaceAll(string(fresh), "\n", "\r\n")
		}
		_ = os.WriteFile(target, []byte(touched), 0o644)
		if r := run(); r != nil {
			return mk("stale-output-run", "cogen failed when an earlier output had been touched ("+variant+"): "+normDiag(r.out))
		}
		again, _ := os.ReadFile(target)
		if string(again) != string(fresh) {
			return mk("stale-output-"+variant, fmt.Sprintf("an earlier output touched afterwards (%s) changes what the next run derives: %d bytes instead of %d, first lines %q", variant, len(again), len(fresh), firstN(string(again), 160)))
		}
	}
	return nil
}

func firstN(s string, n int) string {
	if len(s) > n {
		return s[:n]
	}
	return s
}

func init() {
	checks["C16"] = &checkT{needCogen: true, run: func(rs *runState) {
		rs.rule("package layouts in a scratch module processed by the repository's own cmd/cogen (GOFILE set, cwd = package dir): 1-3 *_co.go files, a *_co_test.go file, a plain sibling file providing a type used by a generator, " +
			"a *_co.go file that imports the API blank / not at all, a sub-package with its own co files, nested package vs module root; generator programs from the control-flow/delegation profiles; the reference rendering " +
			"lives in the layout as an ordinary file and the generated test asserts compiled == reference for every input; oracle: directory snapshot before/after (created set == exactly the derived files, nothing modified/left behind, " +
			"no <dir>_tmp), '!co' header, go build / go test without the tag pass, go build -tags co passes, a second run leaves every byte identical; then one co file is replaced by a much shorter version and the tool runs again over the existing longer derived file: the result must equal a fresh generation and no other file may change; " +
			"non-trivial = >= 2 co files and a sibling type, test file or sub-package; distinct by hash(layout)")
		// known finding: re-executed on a minimal layout; the generated layouts leave the shape out by construction
		extEta := !knownExclusions()["cogen-external-test-eta-not-idempotent"]
		if !extEta {
			tiny := &Program{Name: "P9k", Profile: "tiny"}
			tiny.Decls = []*Decl{{Kind: "gen", Name: "P9kG", Params: []Param{{"a", "int"}}, Elem: "int", Body: []*Stmt{yS(v("a"))}}}
			tiny.Entries = []*Entry{{Name: "P9kG", Kind: "drive", Call: "$PP9kG($0)", Elem: "int", Inputs: [][]int{{1}}}}
			tinyT := &Program{Name: "P9t", Profile: "tiny"}
			tinyT.Decls = []*Decl{{Kind: "gen", Name: "P9tG", Params: []Param{{"a", "int"}}, Elem: "int", Body: []*Stmt{yS(v("a"))}}}
			tinyT.Entries = []*Entry{{Name: "P9tG", Kind: "drive", Call: "$PP9tG($0)", Elem: "int", Inputs: [][]int{{1}}}}
			kl := c16Layout{Style: importStyles[0], CoFiles: [][]*Program{{tiny}}, Names: []string{""}, TestFile: []*Program{tinyT}, ExtEta: true}
			if v := rs.runC16Layout(9999, kl); v != nil && v.Signature == "not-idempotent" && strings.Contains(v.What, "ext_test.go") {
				rs.known = append(rs.known, "KNOWN-FINDING: property=C16 cogen-external-test-eta-not-idempotent: "+c16KnownWhat)
			} else if v != nil {
				v.Extra = mergeExtra(v.Extra, map[string]any{"layout": kl})
				rs.addViolation(v)
			} else {
				fmt.Println("note: known finding cogen-external-test-eta-not-idempotent no longer reproduces on this tree")
			}
			rs.extra["known_findings_excluded_by_construction"] = len(rs.known)
		}
		// a hand-written file that happens to have the name of a derived file (tree.go next to tree_co.go): whatever the tool does,
		// it must not destroy it ("creates, modifies or leaves behind nothing else")
		if v := rs.runC16Clash(); v != nil {
			rs.addViolation(v)
		}
		rs.eval("clash", true, "hand-written-file-with-derived-name")
		n := rs.vol(10, 200)
		var lays []c16Layout
		k := 0
		err := drawAll(rs.seed, n, func(t *rapidT) {
			profs := []*profile{controlFlowProfile(), delegationProfile()}
			mk := func(cnt int) []*Program {
				var ps []*Program
				for i := 0; i < cnt; i++ {
					k++
					p := genProgram(t, profs[rapidInt(t, 0, 1, "prof")], fmt.Sprintf("P%05d", k))
					for _, e := range p.Entries {
						if len(e.Inputs) > 4 {
							e.Inputs = e.Inputs[:4]
						}
					}
					ps = append(ps, p)
				}
				return ps
			}
			lay := c16Layout{Style: importStyles[rapidInt(t, 0, len(importStyles)-1, "style")]}
			lay.AtRoot = !rs.excludeRoot() && rapidInt(t, 0, 4, "root") == 0
			nf := rapidInt(t, 1, 3, "nfiles")
			baseNames := []string{"", "", "pair_codec", "x_co", "conn_config_v2", "my.gen", "co", "a_co_b"}
			for i := 0; i < nf; i++ {
				lay.CoFiles = append(lay.CoFiles, mk(rapidInt(t, 1, 3, "nprog")))
				nm := baseNames[rapidInt(t, 0, len(baseNames)-1, "basename")]
				for _, prev := range lay.Names {
					if prev == nm {
						nm = ""
					}
				}
				lay.Names = append(lay.Names, nm)
			}
			lay.TestName = []string{"", "", "pair_codec", "z_co_all"}[rapidInt(t, 0, 3, "testname")]
			lay.TestFile = mk(1 + rapidInt(t, 0, 1, "testgen")) // the test file has generators of its own
			lay.Unused = []string{"", "blank-import", "no-import"}[rapidInt(t, 0, 2, "unused")]
			lay.Sibling = rapidInt(t, 0, 1, "sibling") == 1
			lay.ExtEta = extEta
			if rapidInt(t, 0, 2, "sub") == 0 {
				lay.SubPkg = mk(2)
			}
			lays = append(lays, lay)
		})
		if err != nil {
			rs.infraProblem(err.Error())
			return
		}
		rs.programs = k
		var wg sync.WaitGroup
		sem := make(chan struct{}, 8)
		for i, lay := range lays {
			wg.Add(1)
			go func(i int, lay c16Layout) {
				defer wg.Done()
				sem <- struct{}{}
				defer func() { <-sem }()
				v := rs.runC16Layout(i, lay)
				h := ""
				for _, f := range lay.CoFiles {
					for _, p := range f {
						h += progHash(p)
					}
				}
				nt := len(lay.CoFiles) >= 2 && (lay.Sibling || len(lay.TestFile) > 0 || len(lay.SubPkg) > 0)
				rs.eval(fmt.Sprint(h, lay.AtRoot, lay.Unused, lay.Sibling, len(lay.SubPkg)), nt, fmt.Sprintf("root=%v", lay.AtRoot), "unused="+lay.Unused, fmt.Sprintf("sibling=%v", lay.Sibling), fmt.Sprintf("subpkg=%v", len(lay.SubPkg) > 0))
				if i%4 == 0 {
					rs.sample(map[string]any{"co_files": len(lay.CoFiles), "programs_in_first_file": len(lay.CoFiles[0]), "co_test_file_generators": len(lay.TestFile), "unused_co_file": lay.Unused, "plain_sibling": lay.Sibling, "sub_package": len(lay.SubPkg) > 0, "at_module_root": lay.AtRoot})
				}
				if v != nil {
					v.Extra = mergeExtra(v.Extra, map[string]any{"layout": lay})
					v.Style = lay.Style
					rs.addViolation(v)
				}
			}(i, lay)
		}
		wg.Wait()
	}}
}

// excludeRoot: known finding (module-root packages) excluded by construction
func (rs *runState) excludeRoot() bool { return knownExclusions()["cogen-at-module-root"] }

// ---- C17 (compiled loops) ---------------------------------------------------------------------------

var c17Shapes = []shape{
	{name: "for3-continue", decls: `
$GEN{$NF(n int, g int)}{int}{
	for i := 0; i < n; i++ {
		tr.Probe(1)
		if i%g != 0 {
			continue
		}
		$YIELD{i}
	}
	$RET
}`},
	{name: "for3-if", decls: `
$GEN{$NF(n int, g int)}{int}{
	for i := 0; i < n; i++ {
		tr.Probe(1)
		if i%g == 0 {
			$YIELD{i}
		}
	}
	$RET
}`},
	{name: "cond-loop", decls: `
$GEN{$NF(n int, g int)}{int}{
	i := 0
	for i < n {
		tr.Probe(1)
		j := i
		i++
		if j%g == 0 {
			$YIELD{j}
		}
	}
	$RET
}`},
	{name: "infinite-loop-break", decls: `
$GEN{$NF(n int, g int)}{int}{
	i := -1
	for {
		i++
		tr.Probe(1)
		if i >= n {
			break
		}
		switch {
		case i%g == 0:
			$YIELD{i}
		}
	}
	$RET
}`},
	{name: "range-int", decls: `
$GEN{$NF(n int, g int)}{int}{
	for i := range n {
		tr.Probe(1)
		if i%g != 0 {
			continue
		}
		$YIELD{i}
	}
	$RET
}`},
	{name: "range-slice", decls: `
$GEN{$NF(n int, g int)}{int}{
	xs := make([]int, n)
	for i, x := range xs {
		tr.Probe(1)
		if (i+x)%g == 0 {
			$YIELD{i}
		}
	}
	$RET
}`},
	{name: "nested-loops", decls: `
$GEN{$NF(n int, g int)}{int}{
	for i := 0; i < n; i += g {
		$YIELD{i}
		for j := 1; j < g && i+j < n; j++ {
			tr.Probe(1)
			if j < 0 {
				$YIELD{-1}
			}
		}
	}
	$RET
}`},
	// rows x columns scan: the inner loop has no initialiser and is the first statement of the outer body, so the
	// optimised code holds ONE inner loop value that is run once per row; most rows yield nothing
	{name: "rows-cols-inner-loop-value-rerun", decls: `
$GEN{$NF(n int, g int)}{int}{
	i, col := 0, 0
	for i < n {
		for col < 3 && i < n {
			tr.Probe(1)
			j := i
			i++
			col++
			if j%g == 0 {
				$YIELD{j}
			}
		}
		col = 0
	}
	$RET
}`},
	{name: "rows-cols-post-resets-3-levels", decls: `
$GEN{$NF(n int, g int)}{int}{
	i, col, row := 0, 0, 0
	for ; i < n; row, col = 0, 0 {
		for ; row < 2 && i < n; row, col = row+1, 0 {
			for ; col < 3 && i < n; col++ {
				tr.Probe(1)
				if i%g == 0 {
					$YIELD{i}
				}
				i++
			}
		}
	}
	$RET
}`},
	// the same scan with the depth probed INSIDE THE POST STATEMENT of the re-run inner loop value (what the runtime does around
	// a post statement is not what it does around conditions and bodies)
	{name: "rows-cols-probe-in-the-post-of-the-rerun-inner-loop", decls: `
$GEN{$NF(n int, g int)}{int}{
	i, col := 0, 0
	for ; i < n; col = 0 {
		for ; col < 3 && i < n; tr.Probe(1) {
			if i%g == 0 {
				$YIELD{i}
			}
			i++
			col++
		}
	}
	$RET
}`},
	// the loop BODY advances other generators and mostly completes without yielding itself
	{name: "body-delegates-to-mostly-empty-generators", decls: `
$GEN{$NMaybe(i int, g int)}{int}{
	if i%g == 0 {
		$YIELD{i}
	}
	$RET
}

$GEN{$NF(n int, g int)}{int}{
	for i := 0; i < n; i++ {
		tr.Probe(1)
		$YFROM{$NMaybe(i, g)}
	}
	$RET
}`},
	{name: "body-ranges-over-another-generator-with-filter", decls: `
$GEN{$NPair(i int)}{int}{
	$YIELD{i}
	$YIELD{-i - 1}
	$RET
}

$GEN{$NF(n int, g int)}{int}{
	i := 0
	for i < n {
		tr.Probe(1)
		for v := range $RANGE{$NPair(i)} {
			if v >= 0 && v%g == 0 {
				$YIELD{v}
			}
		}
		i++
	}
	$RET
}`},
	{name: "body-advances-another-generator-by-hand", decls: `
$GEN{$NNat(n int)}{int}{
	for i := 0; i < n; i++ {
		$YIELD{i}
	}
	$RET
}

$GEN{$NF(n int, g int)}{int}{
	src := $NNat(n)
	for i := 0; i < n; i++ {
		tr.Probe(1)
		if !src.MoveNext() {
			break
		}
		if v := src.Current(); v%g == 0 {
			$YIELD{v}
		}
	}
	$RET
}`},
	{name: "filter-over-iterator", decls: `
$GEN{$NSrc(n int)}{int}{
	for i := 0; i < n; i++ {
		$YIELD{i}
	}
	$RET
}

$GEN{$NF(n int, g int)}{int}{
	for v := range $RANGE{$NSrc(n)} {
		tr.Probe(1)
		if v%g != 0 {
			continue
		}
		$YIELD{v}
	}
	$RET
}`},
}

const c17Deleg = `

$GEN{$ND(d int, n int, g int)}{int}{
	if d <= 0 {
		$YFROM{$NF(n, g)}
		$RET
	}
	$YFROM{$ND(d-1, n, g)}
	$RET
}
`

const stackSlackT = 24

func init() {
	checks["C17"] = &checkT{run: func(rs *runState) {
		rs.rule("compiled loops {3-clause with continue, 3-clause with if, condition-only, infinite with break and a yielding switch, range over int, range over slice, nested loops, init-less inner loops that the optimiser turns into one re-run loop value (2 and 3 levels), loop bodies that advance OTHER generators (delegation to mostly empty generators, nested range over a generator with a filter, MoveNext by hand), filter over another iterator} " +
			"x gap g in {1,10,100,1000,10000} (thorough: 10^6) x delegation depth {0,1,4,8}; a depth probe (runtime.Callers) runs in every iteration; oracle: deepest probe - first probe <= 24 frames independent of g, " +
			"and the yielded values equal the reference's; non-trivial = g >= 100; distinct by (shape, g, depth)")
		gaps := []int{1, 10, 100, 1000, 10000}
		if rs.tier == "thorough" {
			gaps = append(gaps, 1000000)
		}
		var fixed []*Program
		for i, sh := range c17Shapes {
			sh.decls += c17Deleg
			var inputs, dinputs [][]int
			for _, g := range gaps {
				inputs = append(inputs, []int{3 * g, g})
				for _, d := range []int{1, 4, 8} {
					if g <= 10000 {
						dinputs = append(dinputs, []int{d, 3 * g, g})
					}
				}
			}
			sh.entries = []*Entry{
				{Name: "$NF", Kind: "drive", Call: "$P$NF($0, $1)", Elem: "int", Inputs: inputs, Scripts: []string{"long"}, Probes: true, Fuel: 100},
				{Name: "$ND", Kind: "drive", Call: "$P$ND($0, $1, $2)", Elem: "int", Inputs: dinputs, Scripts: []string{"long"}, Probes: true, Fuel: 100},
			}
			fixed = append(fixed, mkShapeProgram("L"+itoa(100+i), sh))
		}
		spec := &diffSpec{
			batchSize: 4, fixed: fixed, styles: importStyles[:1],
			opts: batchOpts{timeout: 10 * time.Minute},
			nontrivial: func(p *Program, r *Record) bool { return len(r.Input) > 0 && r.Input[len(r.Input)-1] >= 100 },
			perRecord: func(rs *runState, p *Program, r *Record) *violationT {
				d := r.Depths["o"]
				for id, v := range d {
					if len(v) == 3 && v[1]-v[0] > stackSlackT {
						return &violationT{Kind: "stack", Signature: "stack-growth", What: fmt.Sprintf("%s %s input %v: call stack grew by %d frames inside one generator (probe %d: first %d, deepest %d over %d probes); bound %d independent of the gap",
							r.Prog, r.Entry, r.Input, v[1]-v[0], id, v[0], v[1], v[2], stackSlackT)}
					}
				}
				return nil
			},
		}
		rs.exh = append(rs.exh, fmt.Sprintf("%d loop shapes x gaps %v x delegation depths {0,1,4,8}", len(c17Shapes), gaps))
		rs.runDiff(spec)
	}}
}

// ---- C14 (compiled generators under interleavings and on goroutines) ----------------------------------

func pureProfile() *profile {
	p := controlFlowProfile()
	p.name = "pure"
	p.noEv = true
	p.noMethods = true
	p.elems = []string{"int"}
	p.nGens = [2]int{2, 2}
	p.w["genlit"] = 0
	p.w["closure"] = 3
	p.w["callstmt"] = 3
	p.w["yieldfrom"] = 4
	return p
}

func interleaveProfile() *profile {
	p := controlFlowProfile()
	p.name = "interleave"
	p.noMethods = true
	p.w["range"] = 9 // the built-in range iterators are part of the per-iterator state
	p.elems = []string{"int"}
	p.nGens = [2]int{2, 2}
	p.w["yieldfrom"] = 4
	return p
}

func pow(b, e int) int {
	r := 1
	for ; e > 0; e-- {
		r *= b
	}
	return r
}

// addInterleaver appends a consumer that advances k iterators according to a schedule decoded from
// its argument (all k^L sequences are enumerated by the inputs).
func addInterleaver(p *Program, k, L int) {
	var gens []*Decl
	for _, d := range p.Decls {
		if d.Kind == "gen" {
			gens = append(gens, d)
		}
	}
	call := func(d *Decl, arg int) string {
		s := d.Name + "("
		for i := range d.Params {
			if i > 0 {
				s += ", "
			}
			s += itoa(arg + i)
		}
		return s + ")"
	}
	its := []string{call(gens[0], 1), call(gens[0], 2), call(gens[len(gens)-1], 1)}[:k]
	raw := "func " + p.Name + "I(s int) (res int) {\n\tits := []$ITER{int}{" + strings.Join(its, ", ") + "}\n" +
		"\tfor step := 0; step < " + itoa(L) + "; step++ {\n\t\ti := s % " + itoa(k) + "\n\t\ts /= " + itoa(k) + "\n" +
		"\t\tif its[i].MoveNext() {\n\t\t\ttr.Ev(1000+i, its[i].Current())\n\t\t\tres = res*7 + its[i].Current()\n\t\t} else {\n\t\t\ttr.Ev(2000 + i)\n\t\t}\n\t}\n\treturn\n}"
	p.Decls = append(p.Decls, &Decl{Kind: "raw", Raw: raw})
	var inputs [][]int
	for s := 0; s < pow(k, L); s++ {
		inputs = append(inputs, []int{s})
	}
	p.Entries = []*Entry{{Name: p.Name + "I", Kind: "call", Call: "$P" + p.Name + "I($0)", Inputs: inputs, Fuel: 400}}
	p.tag("interleave-k" + itoa(k))
}

func addParallel(p *Program) {
	var gens []*Decl
	for _, d := range p.Decls {
		if d.Kind == "gen" {
			gens = append(gens, d)
		}
	}
	g := gens[0]
	args := "a + w%2"
	for i := 1; i < len(g.Params); i++ {
		args += ", w"
	}
	raw := "func " + p.Name + "Par(a int) (res int) {\n\tvar wg sync.WaitGroup\n\touts := make([][]int, 6)\n\tfor w := 0; w < 6; w++ {\n\t\twg.Add(1)\n\t\tgo func(w int) {\n\t\t\tdefer wg.Done()\n" +
		"\t\t\tit := " + g.Name + "(" + args + ")\n\t\t\tfor n := 0; n < 30 && it.MoveNext(); n++ {\n\t\t\t\touts[w] = append(outs[w], it.Current())\n\t\t\t}\n\t\t}(w)\n\t}\n\twg.Wait()\n" +
		"\tfor _, o := range outs {\n\t\tfor _, v := range o {\n\t\t\tres = res*31 + v\n\t\t}\n\t\tres = res*31 + 7\n\t}\n\treturn\n}"
	p.Decls = append(p.Decls, &Decl{Kind: "raw", Raw: raw})
	p.Entries = []*Entry{{Name: p.Name + "Par", Kind: "call", Call: "$P" + p.Name + "Par($0)", Inputs: allInputs(1, 0, 3), Fuel: 1 << 30}}
	p.tag("parallel")
}

func init() {
	checks["C14"] = &checkT{run: func(rs *runState) {
		rs.rule("compiled generators: k in {2,3} live iterators (two of the SAME generator function with different arguments, one of another) advanced by a consumer according to every schedule of length L " +
			"(k=2: all 2^8 = 256 sequences, k=3: all 3^5 = 243) - oracle: interleaved trace == reference, whose iterators are independent coroutines; and 6 goroutines each draining its own iterator of the same generator in a " +
			"runner built with -race - oracle: results == reference and no race report; non-trivial = >= 2 iterators yield at least twice under the schedule; distinct by hash(program)+schedule")
		spec := &diffSpec{
			profiles: []*profile{interleaveProfile()}, batchSize: 10, batches: rs.vol(4, 60),
			mutate: func(t *rapidT, p *Program) {
				if rapidInt(t, 0, 1, "k") == 0 {
					addInterleaver(p, 2, 8)
				} else {
					addInterleaver(p, 3, 5)
				}
			},
			nontrivial: func(p *Program, r *Record) bool { return r.Events >= 4 },
		}
		spec.fixed = iteratorValuePrograms()
		rs.exh = append(rs.exh, "per program: all schedules of length 8 over 2 iterators (256) or of length 5 over 3 iterators (243)")
		rs.runDiff(spec)
		par := &diffSpec{
			profiles: []*profile{pureProfile()}, batchSize: 12, batches: rs.vol(3, 40),
			opts:   batchOpts{extraS: []string{"\"sync\""}, race: true},
			mutate: func(t *rapidT, p *Program) { addParallel(p) },
			nontrivial: func(p *Program, r *Record) bool { return true },
		}
		rs.runDiff(par)
	}}
}

// runC16Clash: package with tree.go (hand-written, no generated-code marker, declares the type the generator uses) and tree_co.go.
// The derived file of tree_co.go would be tree.go. Accepted outcomes: the tool refuses (non-zero exit, every file untouched), or it
// derives the file without losing the hand-written content (the package still builds with and without the tag). A tool that exits 0
// and leaves a package that no longer builds has destroyed the hand-written file.
func (rs *runState) runC16Clash() *violationT {
	base := filepath.Join(rs.tools.scratch, "c16-clash")
	defer func() {
		if os.Getenv("VERIF_KEEP") == "" {
			_ = os.RemoveAll(base)
		}
	}()
	files := rs.tools.moduleFiles("vt")
	files["pkg/tree.go"] = "package pkg\n\n// Tree is written by hand.\ntype Tree struct {\n\tL, R *Tree\n\tV    int\n}\n\nfunc Leaf(v int) *Tree { return &Tree{V: v} }\n"
	files["pkg/tree_co.go"] = coHeader("package pkg\n\nimport . \"github.com/goghcrow/go-co\"\n\nfunc (t *Tree) Walk() Iter[int] {\n\tif t == nil {\n\t\treturn nil\n\t}\n\tif t.L != nil {\n\t\tYieldFrom(t.L.Walk())\n\t}\n\tYield(t.V)\n\tif t.R != nil {\n\t\tYieldFrom(t.R.Walk())\n\t}\n\treturn nil\n}\n")
	root := filepath.Join(base, "m")
	if err := writeFiles(root, files); err != nil {
		rs.infraProblem(err.Error())
		return nil
	}
	if r := runCmd(root, 5*time.Minute, nil, "go", "build", "-gcflags=-e", "-tags", "co", "./..."); r.code != 0 {
		rs.infraProblem("C16 clash layout does not build with the co tag:\n" + lastLines(r.out, 20))
		return nil
	}
	before := snapshot(base)
	r := runCmd(filepath.Join(root, "pkg"), 3*time.Minute, []string{"GOFILE=tree_co.go", "GOPACKAGE=pkg"}, rs.tools.cogen)
	after := snapshot(base)
	mk := func(sig, what string) *violationT {
		return &violationT{Kind: "layout", Signature: sig, What: what, Extra: map[string]any{"files": files}}
	}
	if r.code != 0 {
		// refused: nothing may have changed
		for k, h := range after {
			if before[k] != h {
				return mk("clash-refused-but-changed", fmt.Sprintf("cogen failed on a package with a hand-written tree.go next to tree_co.go and still changed %s", k))
			}
		}
		for k := range before {
			if _, ok := after[k]; !ok {
				return mk("clash-refused-but-changed", fmt.Sprintf("cogen failed on a package with a hand-written tree.go next to tree_co.go and removed %s", k))
			}
		}
		return nil
	}
	if b := runCmd(root, 5*time.Minute, nil, "go", "build", "./..."); b.code != 0 {
		return mk("clash-overwritten", "cogen exited 0 on a package with a hand-written tree.go next to tree_co.go and the hand-written file is gone: "+lastLines(b.out, 4))
	}
	if b := runCmd(root, 5*time.Minute, nil, "go", "build", "-tags", "co", "./..."); b.code != 0 {
		return mk("clash-overwritten", "cogen exited 0 on a package with a hand-written tree.go next to tree_co.go and the package no longer builds with the co tag: "+lastLines(b.out, 4))
	}
	return nil
}
