package main

import (
	"go/parser"
	"go/token"
	"bufio"
	"bytes"
	"context"
	_ "embed"
	"encoding/json"
	"fmt"
	"os"
	"os/exec"
	"path/filepath"
	"regexp"
	"sort"
	"strings"
	"sync/atomic"
	"time"
)

//go:embed templates/tr.go.txt
var tplTr string

//go:embed templates/ref.go.txt
var tplRef string

//go:embed templates/rn.go.txt
var tplRn string

// scratchGoCache: build cache for the scratch modules of one check run. Every batch has unique package
// contents, so a shared cache would grow by several MB per batch (tens of GB over a day of runs); the
// scratch cache lives in the scratch directory and disappears with it. Filling it with the standard
// library packages the batches need costs about 5 s once per run. The drivers are built with the
// user's normal cache (their content is stable between runs).
var scratchGoCache string

// env of every go invocation
func goEnv() []string {
	env := os.Environ()
	env = append(env, "GOFLAGS=-mod=mod", "GOPROXY=off", "GOSUMDB=off", "GOTOOLCHAIN=local")
	if scratchGoCache != "" {
		env = append(env, "GOCACHE="+scratchGoCache)
	}
	return env
}

type cmdResult struct {
	out     string
	code    int
	timeout bool
	dur     time.Duration
}

func runCmd(dir string, timeout time.Duration, extraEnv []string, name string, args ...string) cmdResult {
	ctx, cancel := context.WithTimeout(context.Background(), timeout)
	defer cancel()
	cmd := exec.CommandContext(ctx, name, args...)
	cmd.Dir = dir
	cmd.Env = append(goEnv(), extraEnv...)
	var buf bytes.Buffer
	cmd.Stdout = &buf
	cmd.Stderr = &buf
	start := time.Now()
	err := cmd.Run()
	res := cmdResult{out: buf.String(), dur: time.Since(start)}
	if ctx.Err() == context.DeadlineExceeded {
		res.timeout = true
		res.code = 124
		return res
	}
	if err != nil {
		if ee, ok := err.(*exec.ExitError); ok {
			res.code = ee.ExitCode()
		} else {
			res.code = 127
			res.out += "\n" + err.Error()
		}
	}
	return res
}

// ---------------------------------------------------------------------------------------------
// tool building (once per check run, from the tree under test)

type tools struct {
	cocompile  string
	cocompileu string
	cogen      string
	repo       string
	verif      string
	scratch    string
}

func buildTools(repo, verif, scratch string, needU, needCogen bool) (*tools, error) {
	t := &tools{repo: repo, verif: verif, scratch: scratch}
	bin := filepath.Join(scratch, "bin")
	if err := os.MkdirAll(bin, 0o755); err != nil {
		return nil, err
	}
	// driver module with a replace to the tree under test
	mod := filepath.Join(scratch, "drv.mod")
	gomod := "module verif/drivers\n\ngo 1.19\n\nrequire github.com/goghcrow/go-co v0.0.0\n\nreplace github.com/goghcrow/go-co => " + repo + "\n"
	if err := os.WriteFile(mod, []byte(gomod), 0o644); err != nil {
		return nil, err
	}
	sum, err := os.ReadFile(filepath.Join(repo, "go.sum"))
	if err != nil {
		return nil, err
	}
	if err := os.WriteFile(filepath.Join(scratch, "drv.sum"), sum, 0o644); err != nil {
		return nil, err
	}
	drv := filepath.Join(verif, "drivers")
	t.cocompile = filepath.Join(bin, "cocompile")
	buildArgs := []string{"build", "-modfile=" + mod, "-o", t.cocompile}
	if os.Getenv("VERIF_COVER") != "" {
		// measurement only (never part of a registered check): statement coverage of the compiler under the corpus;
		// run with GOCOVERDIR=<dir> and inspect with `go tool covdata`
		buildArgs = append(buildArgs, "-cover", "-coverpkg=verif/drivers/cocompile,github.com/goghcrow/go-co/rewriter")
	}
	buildArgs = append(buildArgs, "./cocompile")
	if r := runCmd(drv, 10*time.Minute, nil, "go", buildArgs...); r.code != 0 {
		return nil, fmt.Errorf("building cocompile from %s failed:\n%s", repo, r.out)
	}
	if needU {
		t.cocompileu = filepath.Join(bin, "cocompileu")
		if r := runCmd(drv, 10*time.Minute, nil, "go", "build", "-modfile="+mod, "-tags", "verif", "-o", t.cocompileu, "./cocompileu"); r.code != 0 {
			return nil, fmt.Errorf("building cocompileu (tag verif) from %s failed:\n%s", repo, r.out)
		}
	}
	if needCogen {
		// the repository's own cmd/cogen, unmodified; built from a copy of the module file so that
		// no go command runs with a module file inside the tree under test
		t.cogen = filepath.Join(bin, "cogen")
		cmod := filepath.Join(scratch, "cogen.mod")
		src, err := os.ReadFile(filepath.Join(repo, "go.mod"))
		if err != nil {
			return nil, err
		}
		_ = os.WriteFile(cmod, src, 0o644)
		_ = os.WriteFile(filepath.Join(scratch, "cogen.sum"), sum, 0o644)
		if r := runCmd(repo, 10*time.Minute, nil, "go", "build", "-modfile="+cmod, "-o", t.cogen, "./cmd/cogen"); r.code != 0 {
			return nil, fmt.Errorf("building cmd/cogen from %s failed:\n%s", repo, r.out)
		}
	}
	return t, nil
}

// ---------------------------------------------------------------------------------------------
// batches

type batchOpts struct {
	needU   bool // also produce the unoptimised stage (C07)
	needS   bool // runner also links the source package (bystanders, C13)
	style   importStyle
	extraS  []string // extra imports for the S/R files
	variants []string // runner variants in order; the last is the oracle side (default o,r)
	onlyCalls bool
	race      bool // build the runner with the race detector
	files     int  // number of regular source files the programs are spread over (each with its own import style)
	tinyTest  bool // add a small go-co test file to the package: with WithLoadTest every file of the package is then visited twice (package and test variant share the syntax trees), as in every cogen run on a package with co test files
	timeout time.Duration
}

type batch struct {
	id    int
	dir   string
	progs []*Program
	opts  batchOpts
	srcS  string
	srcR  string
}

var batchCounter int64

// failure of a pipeline stage attributed to the batch
type stageFailure struct {
	Stage string `json:"stage"` // render compile compile-u build-o build-u build-r run
	Diag  string `json:"diag"`
	Timeout bool `json:"timeout,omitempty"`
	Hang    bool `json:"hang,omitempty"` // the runner's watchdog: a compiled variant was still running long after the oracle side had completed the same case
}

type batchResult struct {
	records  []Record
	fail     *stageFailure
	crashed  string // BEGIN line of the case that killed the runner, if any
	outO     string // generated (optimised) source
	outU     string
	compileT time.Duration
	runT     time.Duration
}

// Record mirrors rn.Record.
type Record struct {
	Prog   string                   `json:"prog"`
	Entry  string                   `json:"entry"`
	Input  []int                    `json:"input"`
	Script string                   `json:"script"`
	Equal  bool                     `json:"equal"`
	Diff   map[string]string        `json:"diff,omitempty"`
	Traces map[string][]string      `json:"traces,omitempty"`
	Hash   string                   `json:"hash"`
	Yields int                      `json:"yields"`
	Events int                      `json:"events"`
	Len    int                      `json:"len"`
	Panic  string                   `json:"panic,omitempty"`
	Fuel   bool                     `json:"fuel,omitempty"`
	Depths map[string]map[int][]int `json:"depths,omitempty"`
	Direct []string                 `json:"direct,omitempty"`
	MaxBetween int                  `json:"max_between"`
	UO     string                   `json:"uo,omitempty"`
}

func (t *tools) newBatch(progs []*Program, opts batchOpts) (*batch, error) {
	id := int(atomic.AddInt64(&batchCounter, 1))
	b := &batch{id: id, progs: progs, opts: opts}
	b.dir = filepath.Join(t.scratch, fmt.Sprintf("b%05d", id))
	for _, d := range []string{"tr", "ref", "rn", "s", "r", "run"} {
		if err := os.MkdirAll(filepath.Join(b.dir, d), 0o755); err != nil {
			return nil, err
		}
	}
	gomod := "module vt\n\ngo 1.23\n\nrequire github.com/goghcrow/go-co v0.0.0\n\nreplace github.com/goghcrow/go-co => " + t.repo + "\n"
	sum, _ := os.ReadFile(filepath.Join(t.repo, "go.sum"))
	files := map[string]string{
		"go.mod":    gomod,
		"go.sum":    string(sum),
		"tr/tr.go":  tplTr,
		"ref/ref.go": tplRef,
		"rn/rn.go":  tplRn,
	}
	for name, content := range files {
		if err := os.WriteFile(filepath.Join(b.dir, name), []byte(content), 0o644); err != nil {
			return nil, err
		}
	}
	return b, nil
}

func (b *batch) hasTestFiles() bool {
	if b.opts.tinyTest {
		return true
	}
	for _, p := range b.progs {
		if p.TestFile {
			return true
		}
	}
	return false
}

func (b *batch) cleanup() {
	if os.Getenv("VERIF_KEEP") != "" {
		return
	}
	_ = os.RemoveAll(b.dir)
}

// render distributes programs over files: regular files p.go (q.go, r.go when opts.files > 1, each with
// its own import style) and p_test.go for programs flagged TestFile.
func (b *batch) render() *stageFailure {
	nfiles := b.opts.files
	if nfiles < 1 {
		nfiles = 1
	}
	reg := make([][]*Program, nfiles)
	var test []*Program
	i := 0
	for _, p := range expandTwins(b.progs) {
		if p.TestFile {
			test = append(test, p)
			continue
		}
		// a twin stays in the file of its original
		if strings.HasSuffix(p.Name, "M") && i > 0 {
			reg[(i-1)%nfiles] = append(reg[(i-1)%nfiles], p)
			continue
		}
		reg[i%nfiles] = append(reg[i%nfiles], p)
		i++
	}
	if b.opts.tinyTest && len(test) == 0 && i > 0 {
		tiny := &Program{Name: "TT9", Profile: "tiny-test", TestFile: true}
		tiny.Decls = []*Decl{{Kind: "gen", Name: "TT9G", Params: []Param{{"a", "int"}}, Elem: "int", Body: []*Stmt{yS(v("a")), yS(bin("+", v("a"), lit(1)))}}}
		test = append(test, tiny)
	}
	if i == 0 && len(test) > 0 {
		// only test-file programs left (isolation of a failing batch): a package needs a non-test file
		reg[0], test = test, nil
		for _, p := range b.progs {
			p.TestFile = false
		}
	}
	styleAt := func(k int) importStyle {
		if k == 0 {
			return b.opts.style
		}
		for si, st := range importStyles {
			if st == b.opts.style {
				return importStyles[(si+k)%len(importStyles)]
			}
		}
		return importStyles[k%len(importStyles)]
	}
	write := func(mode, dir, file string, st importStyle, progs []*Program) *stageFailure {
		if len(progs) == 0 {
			return nil
		}
		extra := b.opts.extraS
		if file == "zgv.go" {
			extra = nil
		}
		src, err := renderFile(mode, "s", st, progs, extra)
		if err != nil {
			_ = os.WriteFile(filepath.Join(b.dir, dir, file+".broken"), []byte(src), 0o644)
			return &stageFailure{Stage: "render", Diag: err.Error()}
		}
		if mode == "S" {
			b.srcS += src
		} else {
			b.srcR += src
		}
		if err := os.WriteFile(filepath.Join(b.dir, dir, file), []byte(src), 0o644); err != nil {
			return &stageFailure{Stage: "render", Diag: err.Error()}
		}
		return nil
	}
	// package-level variables live in their own file (the generated programs refer to them from other
	// files); the file uses the API itself so that the compiler processes it
	gl := &Program{Name: "GVfile", Profile: "globals"}
	// (the file sorts last, so the first program file is the first file the compiler visits; GVDur/GVBuf give other
	// files a callee whose parameter type comes from a package they import for nothing else)
	gl.Imports = []string{`"time"`, `"strings"`}
	// package-level CONSTANTS named like the parameters and locals of the generated programs (a, b, x1.., w1..): every
	// such local shadows a constant, so a compiler that resolves an identifier by name instead of by object is caught
	var consts strings.Builder
	consts.WriteString("const (\n\ta, b, c = 9000, 9001, 9002\n")
	for _, pre := range []string{"x", "w", "n", "v", "q", "r", "p"} {
		for i := 1; i <= 30; i++ {
			fmt.Fprintf(&consts, "\t%s%d = %d\n", pre, i, 9100+i)
		}
	}
	consts.WriteString(")\n\n")
	gl.Decls = []*Decl{{Kind: "raw", Raw: consts.String() + "var GV0, GV1, GV2 int\n\nfunc GVDur(d time.Duration) int { return int(d / time.Millisecond) }\n\nfunc GVBuf(b *strings.Builder) int { return b.Len() }\n\n$GEN{GVTouch(a int)}{int}{\n\t$YIELD{a}\n\t$RET\n}"}}
	for _, m := range []struct{ mode, dir string }{{"S", "s"}, {"R", "r"}} {
		if f := write(m.mode, m.dir, "zgv.go", styleAt(2), []*Program{gl}); f != nil {
			return f
		}
	}
	names := []string{"p.go", "q.go", "r.go", "t.go"}
	for _, m := range []struct{ mode, dir string }{{"S", "s"}, {"R", "r"}} {
		for k := 0; k < nfiles && k < len(names); k++ {
			if f := write(m.mode, m.dir, names[k], styleAt(k), reg[k]); f != nil {
				return f
			}
		}
		if f := write(m.mode, m.dir, "p_test.go", styleAt(1), test); f != nil {
			return f
		}
	}
	return nil
}

var rePanic = regexp.MustCompile(`(?m)^COMPILER-PANIC: (.*)$`)

// normDiag shortens a compiler/build diagnostic to a stable signature.
func normDiag(s string) string {
	if m := rePanic.FindStringSubmatch(s); m != nil {
		s = m[1]
	}
	s = regexp.MustCompile(`/[^\s:]+/(b\d+/)?`).ReplaceAllString(s, "")
	s = regexp.MustCompile(`\b\d+:\d+\b`).ReplaceAllString(s, "L:C")
	s = regexp.MustCompile(`P\d{3,}`).ReplaceAllString(s, "P#")
	s = regexp.MustCompile(`ɪʇ\d+`).ReplaceAllString(s, "ɪʇN")
	s = regexp.MustCompile(`\s+`).ReplaceAllString(s, " ")
	if i := strings.Index(s, " in: "); i > 0 {
		s = s[:i]
	}
	if len(s) > 160 {
		s = s[:160]
	}
	return strings.TrimSpace(s)
}

func (t *tools) compile(b *batch) *stageFailure {
	to := b.opts.timeout
	if to == 0 {
		to = 5 * time.Minute
	}
	r := runCmd(b.dir, to, nil, t.cocompile, "s", "o")
	if r.code != 0 {
		return &stageFailure{Stage: "compile", Diag: lastLines(r.out, 30), Timeout: r.timeout}
	}
	// production mode must have removed the temporary directory
	if b.opts.needU {
		r := runCmd(b.dir, to, nil, t.cocompileu, "s", "u")
		if r.code != 0 {
			return &stageFailure{Stage: "compile-u", Diag: lastLines(r.out, 30), Timeout: r.timeout}
		}
		if f := fixUnusedImports(b.dir, "u", b.hasTestFiles()); f != nil {
			return f
		}
	}
	return nil
}

func lastLines(s string, n int) string {
	ls := strings.Split(strings.TrimRight(s, "\n"), "\n")
	if len(ls) > n {
		ls = ls[len(ls)-n:]
	}
	return strings.Join(ls, "\n")
}

var reUnusedImport = regexp.MustCompile(`(?m)^(?:vet: )?(\S+\.go):(\d+):\d+: "([^"]+)" imported (as \S+ )?and not used`)

// fixUnusedImports removes exactly the import specs the Go type checker reports as unused in the
// unoptimised stage (it still carries the co import that only optimizeImports drops).
func fixUnusedImports(dir, pkg string, withTests bool) *stageFailure {
	for iter := 0; iter < 4; iter++ {
		r := runCmd(dir, 5*time.Minute, nil, "go", "build", "-gcflags=-e", "./"+pkg)
		ms := reUnusedImport.FindAllStringSubmatch(r.out, -1)
		if len(ms) == 0 && withTests {
			// the test files are only compiled by go test
			r = runCmd(dir, 5*time.Minute, nil, "go", "test", "-vet=off", "-count=1", "-run", "^$", "./"+pkg)
			ms = reUnusedImport.FindAllStringSubmatch(r.out, -1)
		}
		if len(ms) == 0 {
			return nil
		}
		byFile := map[string]map[int]bool{}
		for _, m := range ms {
			f := m[1]
			if !filepath.IsAbs(f) {
				f = filepath.Join(dir, f)
			}
			var ln int
			fmt.Sscan(m[2], &ln)
			if byFile[f] == nil {
				byFile[f] = map[int]bool{}
			}
			byFile[f][ln] = true
		}
		for f, lines := range byFile {
			src, err := os.ReadFile(f)
			if err != nil {
				return &stageFailure{Stage: "compile-u", Diag: err.Error()}
			}
			ls := strings.Split(string(src), "\n")
			for ln := range lines {
				if ln-1 < len(ls) {
					ls[ln-1] = ""
				}
			}
			_ = os.WriteFile(f, []byte(strings.Join(ls, "\n")), 0o644)
		}
	}
	return nil
}

func (t *tools) validate(b *batch) *stageFailure {
	r := runCmd(b.dir, 10*time.Minute, nil, "go", "build", "-gcflags=-e", "./s", "./r")
	if r.code == 0 && b.hasTestFiles() {
		r = runCmd(b.dir, 10*time.Minute, nil, "go", "test", "-vet=off", "-count=1", "-run", "^$", "./s", "./r")
	}
	if r.code != 0 {
		return &stageFailure{Stage: "build-r", Diag: lastLines(r.out, 40), Timeout: r.timeout}
	}
	return nil
}

// buildPkgs type-checks/builds the generated packages; returns the first failing one.
func (t *tools) buildPkgs(b *batch) *stageFailure {
	pk := []string{"./o"}
	if b.opts.needU {
		pk = append(pk, "./u")
	}
	for _, p := range pk {
		r := runCmd(b.dir, 10*time.Minute, nil, "go", "build", "-gcflags=-e", p)
		if r.code == 0 && b.hasTestFiles() {
			r = runCmd(b.dir, 10*time.Minute, nil, "go", "test", "-vet=off", "-count=1", "-run", "^$", p)
		}
		if r.code != 0 {
			return &stageFailure{Stage: "build-" + strings.TrimPrefix(p, "./"), Diag: lastLines(r.out, 40), Timeout: r.timeout}
		}
	}
	return nil
}

// writeRunner generates run/main.go
func (b *batch) writeRunner() error {
	var sb strings.Builder
	variants := b.opts.variants
	if len(variants) == 0 {
		variants = []string{"o", "r"}
		if b.opts.needU {
			variants = []string{"u", "o", "r"}
		}
	}
	sb.WriteString("package main\n\nimport (\n\t\"vt/rn\"\n\t\"vt/tr\"\n")
	for _, v := range variants {
		fmt.Fprintf(&sb, "\t%s \"vt/%s\"\n", v, v)
	}
	sb.WriteString(")\n\nvar _ = tr.Reset\n\nfunc main() {\n")
	for _, p := range b.progs {
		if p.TestFile {
			continue // functions of _test.go files are not linkable from the runner; they are built and vetted only
		}
		for _, e := range p.Entries {
			if b.opts.onlyCalls && e.Kind != "call" {
				continue
			}
			fmt.Fprintf(&sb, "\trn.RunEntry(rn.Entry{Prog: %q, Name: %q, Unordered: %v, Fuel: %d, Probes: %v, Drive: %v,\n", p.Name, e.Name, p.Unordered, e.Fuel, e.Probes, e.Kind == "drive")
			fmt.Fprintf(&sb, "\t\tInputs: %s,\n", goIntMatrix(e.Inputs))
			fmt.Fprintf(&sb, "\t\tScripts: %#v,\n", e.Scripts)
			sb.WriteString("\t\tVariants: []rn.Variant{\n")
			vs := variants
			if p.Twin == "yieldfrom-to-range" && !hasYieldFromInHeader(p) {
				// the twin's compiled function is one more subject-side variant
				vs = append([]string{"m"}, variants...)
			}
			for _, v := range vs {
				call := e.Call
				if v == "m" {
					call = strings.ReplaceAll(call, p.Name, p.Name+"M")
					call = strings.ReplaceAll(call, "$P", "o.")
				}
				call = strings.ReplaceAll(call, "$P", v+".")
				for i := 9; i >= 0; i-- {
					call = strings.ReplaceAll(call, fmt.Sprintf("$%d", i), fmt.Sprintf("in[%d]", i))
				}
				if e.Kind == "drive" {
					fmt.Fprintf(&sb, "\t\t\t{Name: %q, Run: func(in []int, sc rn.Script) { rn.Drive[%s](func() rn.Iter[%s] { return %s }, sc) }},\n", v, e.Elem, e.Elem, call)
				} else {
					fmt.Fprintf(&sb, "\t\t\t{Name: %q, Run: func(in []int, sc rn.Script) { rn.Call(func() any { return %s }) }},\n", v, call)
				}
			}
			sb.WriteString("\t\t}})\n")
		}
	}
	sb.WriteString("\trn.Done()\n}\n")
	return os.WriteFile(filepath.Join(b.dir, "run", "main.go"), []byte(sb.String()), 0o644)
}

func goIntMatrix(m [][]int) string {
	var rows []string
	for _, r := range m {
		var xs []string
		for _, x := range r {
			xs = append(xs, fmt.Sprint(x))
		}
		rows = append(rows, "{"+strings.Join(xs, ", ")+"}")
	}
	return "[][]int{" + strings.Join(rows, ", ") + "}"
}

func (t *tools) runRunner(b *batch, race bool) ([]Record, string, *stageFailure) {
	if err := b.writeRunner(); err != nil {
		return nil, "", &stageFailure{Stage: "run", Diag: err.Error()}
	}
	args := []string{"build", "-o", "run/runner"}
	if race {
		args = append(args, "-race")
	}
	args = append(args, "./run")
	r := runCmd(b.dir, 10*time.Minute, nil, "go", args...)
	if r.code != 0 {
		return nil, "", &stageFailure{Stage: "build-run", Diag: lastLines(r.out, 40), Timeout: r.timeout}
	}
	to := b.opts.timeout
	if to == 0 {
		to = 5 * time.Minute
	}
	rr := runCmd(b.dir, to, []string{"GOMAXPROCS=2"}, filepath.Join(b.dir, "run", "runner"))
	var recs []Record
	lastBegin := ""
	done := false
	sc := bufio.NewScanner(strings.NewReader(rr.out))
	sc.Buffer(make([]byte, 1<<20), 1<<26)
	for sc.Scan() {
		l := sc.Text()
		switch {
		case strings.HasPrefix(l, "BEGIN "):
			lastBegin = l[6:]
		case strings.HasPrefix(l, "REC "):
			var rec Record
			if err := json.Unmarshal([]byte(l[4:]), &rec); err == nil {
				recs = append(recs, rec)
				lastBegin = ""
			}
		case l == "DONE":
			done = true
		}
	}
	if strings.Contains(rr.out, "WARNING: DATA RACE") {
		i := strings.Index(rr.out, "WARNING: DATA RACE")
		rep := rr.out[i:]
		if len(rep) > 2500 {
			rep = rep[:2500]
		}
		return recs, lastBegin, &stageFailure{Stage: "run", Diag: "race detector report:\n" + rep}
	}
	if i := strings.Index(rr.out, "\nHANG "); i >= 0 {
		l := rr.out[i+1:]
		if j := strings.IndexByte(l, '\n'); j >= 0 {
			l = l[:j]
		}
		return recs, lastBegin, &stageFailure{Stage: "run", Diag: l, Hang: true}
	}
	if !done {
		diag := lastLines(rr.out, 25)
		if len(diag) > 3000 {
			diag = diag[len(diag)-3000:]
		}
		return recs, lastBegin, &stageFailure{Stage: "run", Diag: fmt.Sprintf("runner died (exit %d) in case %q\n%s", rr.code, lastBegin, firstFatal(rr.out)), Timeout: rr.timeout}
	}
	return recs, "", nil
}

func firstFatal(out string) string {
	for _, l := range strings.Split(out, "\n") {
		if strings.HasPrefix(l, "fatal error:") || strings.HasPrefix(l, "panic:") || strings.HasPrefix(l, "runtime:") {
			return l
		}
	}
	return lastLines(out, 5)
}

// runBatch = render, compile, build, run. On a stage failure the result carries it; the caller
// decides whether to split the batch.
func (t *tools) runBatch(progs []*Program, opts batchOpts) (*batchResult, *batch) {
	return t.runBatchX(progs, opts, false)
}

func (t *tools) runBatchX(progs []*Program, opts batchOpts, reducing bool) (*batchResult, *batch) {
	res := &batchResult{}
	b, err := t.newBatch(progs, opts)
	if err != nil {
		res.fail = &stageFailure{Stage: "infra", Diag: err.Error()}
		return res, nil
	}
	if f := b.render(); f != nil {
		res.fail = f
		return res, b
	}
	// both renderings must be valid Go before the subject compiler sees the source: the source
	// package builds natively (the API stubs make it ordinary Go) and so does the reference
	if f := t.validate(b); f != nil {
		if reducing {
			f.Stage = "invalid"
		}
		res.fail = f
		return res, b
	}
	t0 := time.Now()
	if f := t.compile(b); f != nil {
		res.fail = f
		return res, b
	}
	res.compileT = time.Since(t0)
	for _, fn := range []string{"p.go", "q.go", "r.go", "t.go", "p_test.go", "zgv.go"} {
		if o, err := os.ReadFile(filepath.Join(b.dir, "o", fn)); err == nil {
			res.outO += string(o)
		}
		if u, err := os.ReadFile(filepath.Join(b.dir, "u", fn)); err == nil {
			res.outU += string(u)
		}
	}
	if f := sideEffectImportsKept(b); f != nil {
		res.fail = f
		return res, b
	}
	if f := directivesKept(b); f != nil {
		res.fail = f
		return res, b
	}
	if f := t.buildPkgs(b); f != nil {
		res.fail = f
		return res, b
	}
	t1 := time.Now()
	recs, crashed, f := t.runRunner(b, opts.race)
	res.runT = time.Since(t1)
	res.records = recs
	res.crashed = crashed
	res.fail = f
	return res, b
}

// funcSource extracts the text of the declarations of one program from a rendered/generated file
// (between its "// ---- Pxxxx" marker and the next marker), for samples and replays.
func progSource(src, prog string) string {
	i := strings.Index(src, "// ---- "+prog+" ")
	if i < 0 {
		// generated files lose free-floating comments: fall back to the functions named after the program
		var out []string
		for _, chunk := range strings.Split(src, "\nfunc ") {
			if strings.Contains(firstLine(chunk), prog) {
				out = append(out, "func "+chunk)
			}
		}
		return strings.Join(out, "\n")
	}
	rest := src[i:]
	if j := strings.Index(rest[1:], "// ---- P"); j >= 0 {
		rest = rest[:j+1]
	}
	return rest
}

func firstLine(s string) string {
	if i := strings.Index(s, "\n"); i >= 0 {
		return s[:i]
	}
	return s
}

func sortedKeys[V any](m map[string]V) []string {
	var ks []string
	for k := range m {
		ks = append(ks, k)
	}
	sort.Strings(ks)
	return ks
}

// sideEffectImportsKept: a static oracle that needs no execution. In the runner every variant is linked into ONE binary, so
// a side-effect import (_ "image/png") that the compiler drops from the generated file is still linked in through the source
// package and its init still runs: the loss cannot be observed by running. The generated file must therefore import exactly
// the side-effect packages its source file imports (C13 "side-effect imports", C07 "import clean-up never removes an import
// the file still needs"). The failure is reported like a build failure of the output (stage build-o) and isolated by bisection.
func sideEffectImportsKept(b *batch) *stageFailure {
	blanks := func(path string) (map[string]bool, bool) {
		src, err := os.ReadFile(path)
		if err != nil {
			return nil, false
		}
		f, err := parser.ParseFile(token.NewFileSet(), path, src, parser.ImportsOnly)
		if err != nil {
			return nil, false
		}
		m := map[string]bool{}
		for _, im := range f.Imports {
			if im.Name != nil && im.Name.Name == "_" {
				m[im.Path.Value] = true
			}
		}
		return m, true
	}
	for _, fn := range []string{"p.go", "q.go", "r.go", "t.go", "p_test.go", "zgv.go"} {
		want, ok := blanks(filepath.Join(b.dir, "s", fn))
		if !ok {
			continue
		}
		got, ok := blanks(filepath.Join(b.dir, "o", fn))
		if !ok {
			continue
		}
		for _, path := range sortedKeys(want) {
			if !got[path] {
				return &stageFailure{Stage: "build-o", Diag: fmt.Sprintf("o/%s: side-effect import _ %s of the source file is missing in the generated file (its init functions no longer run)", fn, path)}
			}
		}
		for _, path := range sortedKeys(got) {
			if !want[path] {
				return &stageFailure{Stage: "build-o", Diag: fmt.Sprintf("o/%s: the generated file imports _ %s for its side effects, the source file does not", fn, path)}
			}
		}
	}
	return nil
}

var reDirective = regexp.MustCompile(`(?m)^\s*//(go:[a-z]+|export)( .*)?$`)

// directivesKept: compiler directives (//go:embed, //go:noinline, //go:linkname, //go:debug, //export ...) are comments with a
// meaning. Every directive line of a source file must be present in the generated file (//go:build and //go:generate excepted:
// the tool replaces the constraint, and a generate line is only a comment for the build). Reported like a build failure of the output.
func directivesKept(b *batch) *stageFailure {
	collect := func(path string) (map[string]int, bool) {
		src, err := os.ReadFile(path)
		if err != nil {
			return nil, false
		}
		m := map[string]int{}
		for _, l := range reDirective.FindAllString(string(src), -1) {
			l = strings.TrimSpace(l)
			if strings.HasPrefix(l, "//go:build") || strings.HasPrefix(l, "//go:generate") {
				continue
			}
			m[l]++
		}
		return m, true
	}
	for _, fn := range []string{"p.go", "q.go", "r.go", "t.go", "p_test.go", "zgv.go"} {
		want, ok := collect(filepath.Join(b.dir, "s", fn))
		if !ok {
			continue
		}
		got, ok := collect(filepath.Join(b.dir, "o", fn))
		if !ok {
			continue
		}
		for _, d := range sortedKeys(want) {
			// (the attached source of a generator is a comment that may repeat a directive: more is fine, fewer is not)
			if got[d] < want[d] {
				return &stageFailure{Stage: "build-o", Diag: fmt.Sprintf("o/%s: the directive %q of the source file is missing in the generated file", fn, d)}
			}
		}
	}
	return nil
}
