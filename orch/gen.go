package main

import (
	"fmt"
	"sort"
	"strings"

	"pgregory.net/rapid"
)

// profile = weights over the statement grammar plus switches; each property check uses its own.
type profile struct {
	name      string
	maxDepth  int
	maxStmts  int            // statement budget per generator body
	w         map[string]int // weights of statement kinds in generator bodies
	elems     []string       // element types
	nGens     [2]int         // number of generator decls per program (min,max)
	consumers int            // number of consumer functions per program (max)
	exclude   map[string]bool
	vlProb    int // percent of expressions wrapped in tr.Vl
	panics    bool
	scripts   []string
	inputs    [][]int
	fuel      int
	globals    bool // package-level variables GV0..GV2 (declared in another file of the package) are visible
	noMethods  bool // generators are plain functions only
	keepParams bool // parameters a, b are never shadowed
	noEv      bool // no trace events inside generators (goroutine-safe programs, C14 parallel)
	plainFns  int  // number of plain (non-generator) functions per program (C13)
	etaBait   bool // closures of the eta-reducible shape func(p) T { return f(p) }
}

func (p *profile) excl(k string) bool { return p.exclude[k] }

type vinfo struct {
	name string
	typ  string // int rune string any ... | "closure/N" | "iter/<elem>" | "genfn/N/<elem>"
	hdr  bool   // variable of a 3-clause for header (must not be captured by closures)
	ro   bool   // loop counter maintained by the generator: never assigned by generated statements
}

type frame struct {
	vars  []vinfo
	fnTop bool // first frame of a function body
}

type genInfo struct {
	name   string
	nparam int
	elem   string
	call   string // call expression prefix for methods etc. ("" = name)
}

type gctx struct {
	t      *rapid.T
	prof   *profile
	prog   *Program
	nextEv int
	nextID int
	scope  []*frame
	inGen  bool
	noYield int // > 0 inside a loop that is generated without any yield (it stays a native loop in the compiled code)
	elem   string
	loops  int // enclosing loops within the current function
	sws    int // enclosing switches within the current function (innermost breakable is a switch if swInner)
	inner  []string // stack of breakable statements in the current function: "loop" / "switch"
	depth  int
	budget int
	gens   []genInfo // generators declared so far in this program (delegation targets)
	label  int
	yieldsInFn int
	afterYield bool // a yield has been emitted earlier in the current straight-line path (approximation)
	inClosure int
	ret     string // result kind of the current function: gen | int | none
	noShadowNext bool
	swYield []bool // per enclosing switch: a yield has been emitted inside it so far
	postYieldLoop []bool // per enclosing loop: the loop has a yielding post statement
}

func (g *gctx) draw(n int, what string) int {
	g.label++
	return rapid.IntRange(0, n-1).Draw(g.t, fmt.Sprintf("%s#%d", what, g.label))
}

func (g *gctx) pct(p int, what string) bool { return g.draw(100, what) < p }

func (g *gctx) ev() int { g.nextEv++; return g.nextEv }

func (g *gctx) fresh(prefix string) string {
	g.nextID++
	return fmt.Sprintf("%s%d", prefix, g.nextID)
}

func (g *gctx) push(fnTop bool) { g.scope = append(g.scope, &frame{fnTop: fnTop}) }
func (g *gctx) pop()            { g.scope = g.scope[:len(g.scope)-1] }

func (g *gctx) declare(v vinfo) {
	f := g.scope[len(g.scope)-1]
	f.vars = append(f.vars, v)
}

func (g *gctx) declaredInCurrent(name string) bool {
	for _, v := range g.scope[len(g.scope)-1].vars {
		if v.name == name {
			return true
		}
	}
	return false
}

// visible returns the innermost binding of every visible name, filtered by pred.
func (g *gctx) visible(pred func(vinfo) bool) []vinfo {
	seen := map[string]bool{}
	var out []vinfo
	for i := len(g.scope) - 1; i >= 0; i-- {
		f := g.scope[i]
		for j := len(f.vars) - 1; j >= 0; j-- {
			v := f.vars[j]
			if seen[v.name] {
				continue
			}
			seen[v.name] = true
			if pred(v) {
				out = append(out, v)
			}
		}
	}
	sort.Slice(out, func(i, j int) bool { return out[i].name < out[j].name })
	return out
}

func isIntLike(t string) bool {
	switch t {
	case "int", "rune", "byte", "string", "any", "int64", "uint8", "int32", "bool", "error", "tr.Pt", "tr.MyInt", "uint", "int8", "uint16", "float64":
		return true
	}
	return false
}

func (g *gctx) intVars() []vinfo {
	return g.visible(func(v vinfo) bool {
		if g.inClosure > 0 && v.hdr {
			return false
		}
		return isIntLike(v.typ)
	})
}

// assignable int variables (type exactly int, not a header var when in a closure)
func (g *gctx) mutVars() []vinfo {
	return g.visible(func(v vinfo) bool {
		if v.hdr || v.ro {
			return false
		}
		return v.typ == "int"
	})
}

// ---- expressions --------------------------------------------------------------------------------

func lit(n int) *Expr { return &Expr{K: "lit", N: n} }

func (g *gctx) atom() *Expr {
	vars := g.intVars()
	if len(vars) > 0 && g.pct(70, "atomvar") {
		v := vars[g.draw(len(vars), "var")]
		return &Expr{K: "var", Name: v.name, T: v.typ}
	}
	return lit(g.draw(4, "lit"))
}

func (g *gctx) intExpr(depth int) *Expr {
	var e *Expr
	switch {
	case depth <= 0 || g.pct(45, "atom"):
		e = g.atom()
	default:
		switch g.draw(6, "binop") {
		case 0, 1:
			e = &Expr{K: "bin", Op: "+", L: g.intExpr(depth - 1), R: g.intExpr(depth - 1)}
		case 2:
			e = &Expr{K: "bin", Op: "-", L: g.intExpr(depth - 1), R: g.intExpr(depth - 1)}
		case 3:
			e = &Expr{K: "bin", Op: "*", L: g.intExpr(depth - 1), R: lit(1 + g.draw(3, "mul"))}
		case 4:
			e = &Expr{K: "bin", Op: "%", L: g.intExpr(depth - 1), R: lit(2 + g.draw(3, "mod"))}
		default:
			cl := g.visible(func(v vinfo) bool { return v.typ == "closure/1" })
			if len(cl) > 0 {
				e = &Expr{K: "call", Name: cl[g.draw(len(cl), "cl")].name, Args: []*Expr{g.intExpr(depth - 1)}}
			} else {
				e = g.atom()
			}
		}
	}
	if g.prof.vlProb > 0 && g.pct(g.prof.vlProb, "vl") {
		e = &Expr{K: "vl", N: g.ev(), L: e}
	}
	return e
}

func (g *gctx) cond() *Expr {
	ops := []string{"<", "<=", "==", "!=", ">", ">="}
	var c *Expr
	switch g.draw(5, "condkind") {
	case 0:
		c = &Expr{K: "cmp", Op: "==", L: &Expr{K: "bin", Op: "%", L: g.intExpr(1), R: lit(2)}, R: lit(g.draw(2, "par"))}
	case 1:
		l, r := g.cond1(ops), g.cond1(ops)
		if g.pct(50, "andor") {
			c = &Expr{K: "and", L: l, R: r}
		} else {
			c = &Expr{K: "or", L: l, R: r}
		}
	default:
		c = g.cond1(ops)
	}
	if g.prof.vlProb > 0 && g.pct(g.prof.vlProb, "vlb") {
		c = &Expr{K: "vlb", N: g.ev(), L: c}
	}
	return c
}

func (g *gctx) cond1(ops []string) *Expr {
	return &Expr{K: "cmp", Op: ops[g.draw(len(ops), "cmpop")], L: g.intExpr(1), R: lit(g.draw(4, "cmplit"))}
}

// ---- statements ---------------------------------------------------------------------------------

func (g *gctx) evStmt() *Stmt {
	if g.prof.noEv {
		return &Stmt{K: "rawsimple", Raw: "_ = 0"}
	}
	s := &Stmt{K: "ev", ID: g.ev()}
	n := g.draw(3, "evargs")
	for i := 0; i < n; i++ {
		s.Args = append(s.Args, g.intExpr(1))
	}
	return s
}

func (g *gctx) pick() string {
	type kw struct {
		k string
		w int
	}
	var ks []kw
	total := 0
	for k, w := range g.prof.w {
		if w <= 0 {
			continue
		}
		if !g.allowed(k) {
			continue
		}
		ks = append(ks, kw{k, w})
		total += w
	}
	sort.Slice(ks, func(i, j int) bool { return ks[i].k < ks[j].k })
	x := g.draw(total, "kind")
	for _, e := range ks {
		if x < e.w {
			return e.k
		}
		x -= e.w
	}
	return "ev"
}

func (g *gctx) allowed(k string) bool {
	compound := k == "if" || k == "switch" || k == "tswitch" || k == "for" || k == "block" || k == "range" || k == "closure" || k == "genlit" || k == "crange"
	if compound && g.depth >= g.prof.maxDepth {
		return false
	}
	switch k {
	case "yield", "yieldfrom":
		if !g.inGen || g.noYield > 0 {
			return false
		}
		if k == "yieldfrom" && !g.hasDelegTarget() {
			return false
		}
	case "break":
		if len(g.inner) == 0 {
			return false
		}
		if g.prof.excl("break-after-yield-in-switch") && g.inner[len(g.inner)-1] == "switch" && g.inGen {
			// known finding: a break that leaves a switch from behind a yield; conservatively no break
			// directly inside switches of generator functions once a yield has been emitted in the switch
			if len(g.swYield) > 0 && g.swYield[len(g.swYield)-1] {
				return false
			}
		}
	case "continue":
		if g.loops == 0 {
			return false
		}
		if g.prof.excl("continue-with-yielding-post") {
			for _, py := range g.postYieldLoop {
				_ = py
			}
			if len(g.postYieldLoop) > 0 && g.postYieldLoop[len(g.postYieldLoop)-1] {
				return false
			}
		}
	case "assign", "incdec":
		if len(g.mutVars()) == 0 {
			return false
		}
	case "callstmt":
		if len(g.visible(func(v vinfo) bool { return v.typ == "closure/0" })) == 0 {
			return false
		}
	case "crange", "itdecl":
		if !g.hasDelegTarget() {
			return false
		}
	case "pullloop", "itassign":
		if len(g.iterVars()) == 0 {
			return false
		}
		if k == "pullloop" && g.depth >= g.prof.maxDepth {
			return false
		}
	case "panic":
		return g.prof.panics
	case "genlit":
		return g.inGen && g.inClosure == 0 && g.noYield == 0
	}
	return true
}

// stmts generates a statement list for a new block (scope frame pushed by the caller).
func (g *gctx) stmts(max int, loopBody bool) []*Stmt {
	var out []*Stmt
	if loopBody {
		out = append(out, g.evStmt())
	}
	n := 1 + g.draw(max, "nstmts")
	for i := 0; i < n && g.budget > 0; i++ {
		g.budget--
		s := g.stmt()
		if s == nil {
			continue
		}
		out = append(out, s...)
		last := s[len(s)-1]
		if last.K == "break" || last.K == "continue" || last.K == "return" || (last.K == "panic" && last.T != "rt") {
			break // no dead code
		}
	}
	return out
}

func (g *gctx) newVarName(shadowOK bool) string {
	// shadowing: reuse a visible int variable's name (not declared in the current block)
	if shadowOK && g.pct(35, "shadow") {
		vars := g.visible(func(v vinfo) bool {
			if g.prof.keepParams && (v.name == "a" || v.name == "b") {
				return false // hand-written snippets injected into the program refer to the int parameters
			}
			if strings.Contains(v.name, ".") {
				return false // a field, not a declarable name
			}
			return isIntLike(v.typ) && !g.declaredInCurrent(v.name) && v.name != "res"
		})
		if len(vars) > 0 {
			g.prog.tag("shadow")
			return vars[g.draw(len(vars), "shadowvar")].name
		}
	}
	for {
		n := g.fresh("x")
		return n
	}
}

func (g *gctx) noteYield() {
	g.yieldsInFn++
	g.afterYield = true
	for i := range g.swYield {
		g.swYield[i] = true
	}
}

func (g *gctx) stmt() []*Stmt {
	k := g.pick()
	switch k {
	case "ev":
		return []*Stmt{g.evStmt()}
	case "decl":
		e := g.intExpr(2)
		name := g.newVarName(true)
		g.declare(vinfo{name: name, typ: "int"})
		d := &Stmt{K: "decl", Name: name, E: e}
		switch g.draw(10, "declform") {
		case 0, 1:
			d.T = "var" // var x = e
			g.prog.tag("var-decl")
		case 2:
			d.T = "var-typed" // var x int = e
			g.prog.tag("var-decl")
		case 3:
			// x, p := e, 7: declares (or, next to an earlier declaration in the same scope, would re-use) x together with a new name
			d.T = "pair"
			d.Name2 = g.fresh("p")
			g.declare(vinfo{name: d.Name2, typ: "int", ro: true})
			g.prog.tag("pair-decl")
		}
		return []*Stmt{d}
	case "assign":
		vs := g.mutVars()
		v := vs[g.draw(len(vs), "asgvar")]
		op := []string{"=", "+=", "-=", "="}[g.draw(4, "asgop")]
		return []*Stmt{{K: "assign", Name: v.name, Op: op, E: g.intExpr(2)}}
	case "incdec":
		vs := g.mutVars()
		v := vs[g.draw(len(vs), "incvar")]
		return []*Stmt{{K: "incdec", Name: v.name, Op: []string{"++", "--"}[g.draw(2, "incop")]}}
	case "yield":
		g.noteYield()
		return []*Stmt{{K: "yield", E: g.intExpr(2)}}
	case "yieldfrom":
		g.noteYield()
		g.prog.tag("yieldfrom")
		return []*Stmt{{K: "yieldfrom", Iter: g.iterExpr()}}
	case "block":
		g.depth++
		g.push(false)
		body := g.stmts(3, false)
		g.pop()
		g.depth--
		return []*Stmt{{K: "block", Body: body}}
	case "if":
		return []*Stmt{g.ifStmt(0)}
	case "switch":
		return []*Stmt{g.switchStmt()}
	case "tswitch":
		return []*Stmt{g.tswitchStmt()}
	case "for":
		return g.forStmt()
	case "range":
		return g.rangeStmt()
	case "break", "continue":
		if g.afterYield {
			g.prog.tag(k + "-after-yield")
		}
		if k == "break" && g.inner[len(g.inner)-1] == "switch" {
			g.prog.tag("break-in-switch")
		}
		return []*Stmt{{K: k}}
	case "return":
		if g.afterYield {
			g.prog.tag("return-after-yield")
		}
		if g.ret == "int" {
			return []*Stmt{{K: "return", E: g.intExpr(1)}}
		}
		return []*Stmt{{K: "return"}}
	case "panic":
		g.prog.tag("panic")
		t := ""
		if g.pct(25, "rtpanic") {
			t = "rt"
		}
		return []*Stmt{{K: "panic", T: t, E: lit(g.ev())}}
	case "closure":
		return g.closureStmt()
	case "callstmt":
		cl := g.visible(func(v vinfo) bool { return v.typ == "closure/0" })
		return []*Stmt{{K: "callstmt", Name: cl[g.draw(len(cl), "cl0")].name}}
	case "genlit":
		return g.genLit()
	case "crange":
		if g.pct(30, "crange-assign") {
			// `=` form: the loop variable is declared before the loop and keeps the last element
			return g.crangeAssign()
		}
		return []*Stmt{g.crangeStmt()}
	case "itdecl":
		return g.itDecl()
	case "pullloop":
		return []*Stmt{g.pullLoop()}
	case "itassign":
		return g.itAssign()
	}
	return []*Stmt{g.evStmt()}
}

func (g *gctx) simpleInit(allowYield bool) *Stmt {
	// init of if/switch: a short declaration (possibly shadowing), an assignment, an event or a yield
	switch g.draw(5, "initkind") {
	case 0, 1:
		e := g.intExpr(1)
		name := g.newVarName(true)
		g.declare(vinfo{name: name, typ: "int"})
		g.prog.tag("init-decl")
		return &Stmt{K: "decl", Name: name, E: e}
	case 2:
		if vs := g.mutVars(); len(vs) > 0 {
			return &Stmt{K: "assign", Name: vs[g.draw(len(vs), "iv")].name, Op: "=", E: g.intExpr(1)}
		}
		return g.evStmt()
	case 3:
		if allowYield && g.inGen && g.noYield == 0 {
			g.noteYield()
			g.prog.tag("yield-in-init")
			return &Stmt{K: "yield", E: g.intExpr(1)}
		}
		return g.evStmt()
	default:
		return g.evStmt()
	}
}

func (g *gctx) ifStmt(chain int) *Stmt {
	g.depth++
	defer func() { g.depth-- }()
	s := &Stmt{K: "if"}
	g.push(false) // scope of the if statement (init)
	defer g.pop()
	if g.pct(20, "ifinit") {
		s.Init = g.simpleInit(false) // a yield in an if initialiser is unsupported (C12)
	}
	s.E = g.cond()
	ay := g.afterYield
	g.push(false)
	s.Body = g.stmts(3, false)
	g.pop()
	after := g.afterYield
	g.afterYield = ay
	switch {
	case chain < 2 && g.pct(25, "elseif"):
		s.ElseIf = g.ifStmt(chain + 1)
		g.prog.tag("else-if")
	case g.pct(40, "else"):
		s.HasElse = true
		g.push(false)
		s.Else = g.stmts(3, false)
		g.pop()
	}
	g.afterYield = g.afterYield || after
	return s
}

func (g *gctx) switchStmt() *Stmt {
	g.depth++
	defer func() { g.depth-- }()
	s := &Stmt{K: "switch"}
	g.push(false)
	defer g.pop()
	if g.pct(30, "swinit") {
		s.Init = g.simpleInit(true)
	}
	tagless := g.pct(25, "tagless") && !g.prof.excl("tagless-switch")
	if !tagless {
		s.E = g.intExpr(1)
	} else {
		g.prog.tag("tagless-switch")
	}
	g.sws++
	g.inner = append(g.inner, "switch")
	g.swYield = append(g.swYield, false)
	ncase := 1 + g.draw(3, "ncase")
	defPos := -1
	if g.pct(60, "default") {
		defPos = g.draw(ncase+1, "defpos")
	}
	ay := g.afterYield
	anyAfter := false
	used := map[int]bool{}
	for i := 0; i <= ncase; i++ {
		if i == defPos {
			g.afterYield = ay
			g.push(false)
			s.Cases = append(s.Cases, &Case{Default: true, Body: g.stmts(3, false)})
			g.pop()
			anyAfter = anyAfter || g.afterYield
		}
		if i == ncase {
			break
		}
		c := &Case{}
		if tagless {
			c.Exprs = []*Expr{g.cond()}
		} else {
			nv := 1 + g.draw(2, "ncasevals")
			for j := 0; j < nv; j++ {
				v := g.draw(5, "caseval")
				for used[v] {
					v++
				}
				used[v] = true // duplicate constant cases do not compile
				c.Exprs = append(c.Exprs, lit(v))
			}
		}
		g.afterYield = ay
		g.push(false)
		c.Body = g.stmts(3, false)
		g.pop()
		anyAfter = anyAfter || g.afterYield
		s.Cases = append(s.Cases, c)
	}
	g.afterYield = ay || anyAfter
	g.swYield = g.swYield[:len(g.swYield)-1]
	g.inner = g.inner[:len(g.inner)-1]
	g.sws--
	return s
}

func (g *gctx) tswitchStmt() *Stmt {
	g.depth++
	defer func() { g.depth-- }()
	s := &Stmt{K: "tswitch"}
	g.push(false)
	defer g.pop()
	g.prog.tag("type-switch")
	if g.pct(20, "tsinit") {
		s.Init = g.simpleInit(false)
	}
	r := &renderer{mode: "S"}
	s.Raw = "tr.Any(" + r.expr(g.intExpr(1)) + ")"
	bind := g.pct(60, "tsbind")
	if bind {
		s.Name = g.newVarName(true)
	}
	g.sws++
	g.inner = append(g.inner, "switch")
	g.swYield = append(g.swYield, false)
	typeSets := [][]string{{"int"}, {"string"}, {"nil"}, {"bool"}, {"tr.Pt"}, {"error"}, {"int", "string"}, {"bool", "nil"}}
	perm := typeSets
	ncase := 1 + g.draw(3, "ntcase")
	usedT := map[string]bool{}
	defPos := -1
	if g.pct(60, "tdefault") {
		defPos = g.draw(ncase+1, "tdefpos")
	}
	ay := g.afterYield
	anyAfter := false
	for i := 0; i <= ncase; i++ {
		if i == defPos {
			g.afterYield = ay
			g.push(false)
			if bind {
				g.declare(vinfo{name: s.Name, typ: "any"})
			}
			s.Cases = append(s.Cases, &Case{Default: true, Body: g.stmts(2, false)})
			g.pop()
			anyAfter = anyAfter || g.afterYield
		}
		if i == ncase {
			break
		}
		ts := perm[g.draw(len(perm), "tset")]
		ok := true
		for _, t := range ts {
			if usedT[t] {
				ok = false
			}
		}
		if !ok {
			continue
		}
		for _, t := range ts {
			usedT[t] = true
		}
		g.afterYield = ay
		g.push(false)
		if bind {
			vt := "any"
			if len(ts) == 1 && ts[0] != "nil" {
				vt = ts[0]
			}
			g.declare(vinfo{name: s.Name, typ: vt})
		}
		s.Cases = append(s.Cases, &Case{Types: ts, Body: g.stmts(2, false)})
		g.pop()
		anyAfter = anyAfter || g.afterYield
	}
	if len(s.Cases) == 0 {
		g.push(false)
		if bind {
			g.declare(vinfo{name: s.Name, typ: "any"})
		}
		s.Cases = append(s.Cases, &Case{Default: true, Body: g.stmts(2, false)})
		g.pop()
	}
	g.afterYield = ay || anyAfter
	g.swYield = g.swYield[:len(g.swYield)-1]
	g.inner = g.inner[:len(g.inner)-1]
	g.sws--
	return s
}

func (g *gctx) forStmt() []*Stmt {
	g.depth++
	defer func() { g.depth-- }()
	s := &Stmt{K: "for"}
	var pre []*Stmt
	g.push(false) // header scope
	defer g.pop()
	form := g.draw(10, "forform")
	postYield := false
	counter := ""
	switch {
	case form < 5: // three-clause with counter
		yieldInit := g.inGen && g.noYield == 0 && g.pct(10, "yieldinit")
		// a yield-free three-clause loop written directly in a generator stays a native loop: its counter is a per-iteration
		// variable like anywhere else and may be captured by closures that outlive the iteration
		native := g.inGen && g.noYield == 0 && !yieldInit && g.pct(25, "nativeloop")
		if native {
			g.noYield++
			defer func() { g.noYield-- }()
			g.prog.tag("yield-free-loop-in-generator")
		}
		var i string
		if yieldInit {
			i = g.fresh("x") // declared in the enclosing block, before the loop
		} else {
			i = g.newVarName(true)
		}
		counter = i
		g.prog.tag("for3")
		bound := &Expr{K: "lit", N: 1 + g.draw(3, "bound")}
		if g.pct(40, "argbound") {
			// the bound must not mention the name of the counter: inside the header it would denote the counter
			var vs []vinfo
			for _, v := range g.intVars() {
				if v.name != i {
					vs = append(vs, v)
				}
			}
			if len(vs) > 0 {
				v := vs[g.draw(len(vs), "bv")]
				bound = &Expr{K: "bin", Op: "%", L: &Expr{K: "var", Name: v.name, T: v.typ}, R: lit(4)}
			}
		}
		s.Init = &Stmt{K: "decl", Name: i, E: lit(0)}
		// the variable of a 3-clause loop written directly in a generator is hoisted by go-co (shared between
		// iterations): closures must not capture it there (design exclusion). Inside a plain closure the loop
		// stays native, so capturing is allowed.
		// (the counter of such a native loop may be captured, but generated statements must not assign it: in the event-free
		// profile nothing would stop a loop whose counter is reset in its body)
		g.declare(vinfo{name: i, typ: "int", hdr: g.inGen && !native, ro: native})
		s.E = &Expr{K: "cmp", Op: "<", L: &Expr{K: "var", Name: i}, R: bound}
		s.Post = &Stmt{K: "incdec", Name: i, Op: "++"}
		if g.inGen && g.noYield == 0 && g.pct(15, "yieldpost") {
			// yielding post statement; the counter is advanced at the top of the body instead
			g.prog.tag("yielding-post")
			g.noteYield()
			postYield = true
		}
		if yieldInit {
			// yielding init: the counter is declared before the loop
			g.prog.tag("yielding-init")
			g.noteYield()
			pre = append(pre, &Stmt{K: "decl", Name: i, E: lit(0)})
			g.scope[len(g.scope)-2].vars = append(g.scope[len(g.scope)-2].vars, vinfo{name: i, typ: "int", ro: true})
			s.Init = &Stmt{K: "yield", E: g.intExpr(1)}
		}
	case form < 8: // condition only: counter declared before, advanced first thing in the body
		i := g.fresh("w")
		pre = append(pre, &Stmt{K: "decl", Name: i, E: lit(0)})
		// the counter lives in the enclosing scope
		g.scope[len(g.scope)-2].vars = append(g.scope[len(g.scope)-2].vars, vinfo{name: i, typ: "int", ro: true})
		s.E = &Expr{K: "cmp", Op: "<", L: &Expr{K: "var", Name: i}, R: lit(1 + g.draw(3, "wbound"))}
		s.Name = i // remembered: body starts with i++
		g.prog.tag("for-cond")
	default: // infinite
		g.prog.tag("for-infinite")
	}
	g.loops++
	g.inner = append(g.inner, "loop")
	g.postYieldLoop = append(g.postYieldLoop, postYield)
	g.push(false)
	ay := g.afterYield
	body := []*Stmt{g.evStmt()}
	if s.E != nil && !g.prof.noEv && g.pct(35, "barebody") {
		// the loop condition is logged (and burns fuel) instead of an event at the top of the body: the body may start
		// with any statement, also with another loop
		s.E = &Expr{K: "vlb", N: g.ev(), L: s.E}
		body = nil
		g.prog.tag("loop-body-without-leading-event")
	}
	if s.Name != "" {
		body = append(body, &Stmt{K: "incdec", Name: s.Name, Op: "++"})
		s.Name = ""
	}
	if postYield {
		body = append(body, &Stmt{K: "incdec", Name: counter, Op: "++"})
		s.Post = &Stmt{K: "yield", E: &Expr{K: "bin", Op: "+", L: lit(100), R: &Expr{K: "var", Name: counter}}}
		if g.hasDelegTarget() && g.pct(35, "yfpost") {
			// the post statement delegates; its argument mentions visible variables (which the body may shadow)
			s.Post = &Stmt{K: "yieldfrom", Iter: g.iterExpr()}
			g.prog.tag("yieldfrom-in-post", "yieldfrom")
		}
	}
	if s.E == nil && s.Init == nil {
		// infinite loop: most get a guarded exit so that the generator terminates
		if !g.inGen || g.prof.noEv || g.pct(80, "infexit") {
			c := g.fresh("n")
			pre = append(pre, &Stmt{K: "decl", Name: c, E: lit(0)})
			g.scope[len(g.scope)-3].vars = append(g.scope[len(g.scope)-3].vars, vinfo{name: c, typ: "int", ro: true})
			exit := "break"
			if g.pct(30, "infret") {
				exit = "return"
			}
			exitStmt := &Stmt{K: exit}
			if exit == "return" && g.ret == "int" {
				exitStmt.E = &Expr{K: "var", Name: c}
			}
			guard := &Stmt{K: "if", E: &Expr{K: "cmp", Op: ">", L: &Expr{K: "var", Name: c}, R: lit(1 + g.draw(3, "infn"))}, Body: []*Stmt{exitStmt}}
			switch g.draw(10, "exitform") {
			case 0, 1: // the exit sits in an else-if arm
				guard = &Stmt{K: "if", E: &Expr{K: "cmp", Op: "<", L: &Expr{K: "var", Name: c}, R: lit(0)}, Body: []*Stmt{g.evStmt()}, ElseIf: guard}
				g.prog.tag("loop-exit-in-else-if")
			case 2: // ... in an else arm
				guard = &Stmt{K: "if", E: &Expr{K: "cmp", Op: "<=", L: &Expr{K: "var", Name: c}, R: guard.E.R}, Body: []*Stmt{g.evStmt()}, HasElse: true, Else: []*Stmt{exitStmt}}
			case 3: // ... in a switch case (a return, since break would leave the switch)
				if exit == "return" {
					guard = &Stmt{K: "switch", Cases: []*Case{{Exprs: []*Expr{guard.E}, Body: []*Stmt{exitStmt}}}}
				}
			}
			body = append(body, &Stmt{K: "incdec", Name: c, Op: "++"}, guard)
		} else {
			g.prog.tag("infinite-generator")
		}
	}
	rest := g.stmts(4, false)
	body = append(body, rest...)
	g.pop()
	g.postYieldLoop = g.postYieldLoop[:len(g.postYieldLoop)-1]
	g.inner = g.inner[:len(g.inner)-1]
	g.loops--
	g.afterYield = ay || g.afterYield
	s.Body = body
	return append(pre, s)
}

type collSpec struct {
	kind, lit, kt, vt string
	n                 int
}

var collTable = []collSpec{
	{"string", `"héy"`, "int", "rune", 3},
	{"string", `"a\xffb"`, "int", "rune", 3},
	{"string", `"\uFFFDz"`, "int", "rune", 2},
	{"string", `""`, "int", "rune", 0},
	{"slice", `[]int{4, 5, 6}`, "int", "int", 3},
	{"slice", `[]string{"p", "q"}`, "int", "string", 2},
	{"slice", `[]int(nil)`, "int", "int", 0},
	{"slice", `[]any{1, nil, "z"}`, "int", "any", 3},
	{"array", `[3]int{7, 8, 9}`, "int", "int", 3},
	{"map", `map[int]int{5: 6}`, "int", "int", 1},
	{"map", `map[string]any{"k": nil}`, "string", "any", 1},
	{"map", `map[int]int(nil)`, "int", "int", 0},
	{"chan", `tr.Chan(3, 4)`, "int", "", 2},
	{"chan", `tr.Chan[string]()`, "string", "", 0},
	{"int", `3`, "int", "", 3},
	{"int", `0`, "int", "", 0},
}

func (g *gctx) rangeStmt() []*Stmt {
	g.depth++
	defer func() { g.depth-- }()
	g.prog.tag("range")
	cs := collTable[g.draw(len(collTable), "coll")]
	s := &Stmt{K: "range", Coll: &Coll{Kind: cs.kind, Lit: cs.lit, KT: cs.kt, VT: cs.vt, N: cs.n}}
	g.prog.tag("range-" + cs.kind)
	if g.pct(40, "collvl") {
		s.Coll.Vl = g.ev()
	}
	var pre []*Stmt
	g.push(false)
	defer g.pop()
	form := g.draw(5, "rform") // 0 none, 1 k, 2 k,_ , 3 _,v , 4 k,v
	if cs.vt == "" && form >= 2 {
		form = 1
	}
	define := g.pct(70, "rdefine")
	s.Op = ":="
	if !define {
		s.Op = "="
		g.prog.tag("range-assign")
	}
	mk := func(t string) string {
		if define {
			n := g.newVarName(true)
			g.declare(vinfo{name: n, typ: t})
			return n
		}
		n := g.fresh("r")
		pre = append(pre, &Stmt{K: "var", Name: n, T: t})
		g.scope[len(g.scope)-2].vars = append(g.scope[len(g.scope)-2].vars, vinfo{name: n, typ: t})
		return n
	}
	switch form {
	case 1:
		s.Name = mk(cs.kt)
	case 2:
		s.Name, s.Name2 = mk(cs.kt), "_"
	case 3:
		s.Name, s.Name2 = "_", mk(cs.vt)
	case 4:
		s.Name = mk(cs.kt)
		s.Name2 = mk(cs.vt)
		if s.Name == s.Name2 {
			s.Name2 = g.fresh("x")
			if define {
				g.declare(vinfo{name: s.Name2, typ: cs.vt})
			}
		}
	}
	if !define && form == 0 {
		s.Op = ":="
	}
	g.loops++
	g.inner = append(g.inner, "loop")
	g.postYieldLoop = append(g.postYieldLoop, false)
	g.push(false)
	ay := g.afterYield
	s.Body = g.stmts(3, true)
	g.pop()
	g.postYieldLoop = g.postYieldLoop[:len(g.postYieldLoop)-1]
	g.inner = g.inner[:len(g.inner)-1]
	g.loops--
	g.afterYield = ay || g.afterYield
	return append(pre, s)
}

// closureStmt declares a plain closure capturing locals.
func (g *gctx) closureStmt() []*Stmt {
	g.depth++
	defer func() { g.depth-- }()
	g.prog.tag("closure")
	if g.afterYield {
		g.prog.tag("closure-after-yield")
	} else {
		g.prog.tag("closure-before-yield")
	}
	name := g.fresh("f")
	arity := g.draw(2, "arity")
	fl := &FuncLit{}
	if g.prof.etaBait && g.pct(35, "eta") {
		// eta-reducible shape over a local function variable that is re-assigned afterwards
		cl := g.visible(func(v vinfo) bool { return v.typ == "closure/1" })
		if len(cl) > 0 {
			target := cl[g.draw(len(cl), "etatarget")].name
			p := g.fresh("p")
			fl.Params = []Param{{p, "int"}}
			fl.Result = "int"
			fl.Ret = &Expr{K: "call", Name: target, Args: []*Expr{{K: "var", Name: p}}}
			g.prog.tag("eta-shape")
			g.declare(vinfo{name: name, typ: "closure/1"})
			k := g.fresh("q")
			re := &Stmt{K: "closure-assign", Name: target, Fn: &FuncLit{Params: []Param{{k, "int"}}, Result: "int", Ret: &Expr{K: "bin", Op: "*", L: &Expr{K: "var", Name: k}, R: lit(2 + g.draw(5, "etamul"))}}}
			return []*Stmt{{K: "closure", Name: name, Fn: fl}, re, {K: "ev", ID: g.ev(), Args: []*Expr{{K: "call", Name: name, Args: []*Expr{g.intExpr(1)}}}}}
		}
	}
	// save function-level context
	sv := *g
	g.inGen, g.loops, g.sws, g.inner, g.swYield, g.postYieldLoop = false, 0, 0, nil, nil, nil
	g.ret = "none"
	if arity == 1 {
		g.ret = "int"
	}
	g.inClosure++
	g.push(true)
	if arity == 1 {
		p := g.fresh("p")
		fl.Params = []Param{{p, "int"}}
		fl.Result = "int"
		g.declare(vinfo{name: p, typ: "int"})
	}
	fl.Body = g.stmts(3, false)
	if arity == 1 {
		if len(fl.Body) == 0 || !terminating(fl.Body) {
			fl.Ret = g.intExpr(2)
		}
	}
	g.pop()
	g.inClosure--
	g.inGen, g.loops, g.sws, g.inner, g.swYield, g.postYieldLoop = sv.inGen, sv.loops, sv.sws, sv.inner, sv.swYield, sv.postYieldLoop
	g.afterYield = sv.afterYield
	g.ret = sv.ret
	g.declare(vinfo{name: name, typ: fmt.Sprintf("closure/%d", arity)})
	return []*Stmt{{K: "closure", Name: name, Fn: fl}}
}

// genLit declares a nested generator literal and delegates to / ranges over it.
func (g *gctx) genLit() []*Stmt {
	g.depth++
	defer func() { g.depth-- }()
	g.prog.tag("generator-literal")
	name := g.fresh("gl")
	fl := &FuncLit{Gen: true, Elem: g.elem}
	p := g.fresh("p")
	fl.Params = []Param{{p, "int"}}
	sv := *g
	g.loops, g.sws, g.inner, g.swYield, g.postYieldLoop = 0, 0, nil, nil, nil
	g.ret = "gen"
	g.inClosure++
	g.push(true)
	g.declare(vinfo{name: p, typ: "int"})
	ys := g.yieldsInFn
	g.afterYield = false
	fl.Body = g.stmts(3, false)
	if g.yieldsInFn == ys {
		fl.Body = append([]*Stmt{{K: "yield", E: &Expr{K: "var", Name: p}}}, fl.Body...)
	}
	g.pop()
	g.inClosure--
	g.loops, g.sws, g.inner, g.swYield, g.postYieldLoop = sv.loops, sv.sws, sv.inner, sv.swYield, sv.postYieldLoop
	g.afterYield = sv.afterYield
	g.declare(vinfo{name: name, typ: "genfn/1/" + g.elem})
	out := []*Stmt{{K: "closure", Name: name, Fn: fl}}
	g.noteYield()
	out = append(out, &Stmt{K: "yieldfrom", Iter: &IterExpr{K: "var", Name: name, Args: []*Expr{g.intExpr(1)}, Elem: g.elem}})
	return out
}

// hasDelegTarget: some iterator of the current element type can be named (in consumers: any)
func (g *gctx) hasDelegTarget() bool {
	for _, gi := range g.gens {
		if gi.elem == g.elem || !g.inGen {
			return true
		}
	}
	return len(g.visible(func(v vinfo) bool { return v.typ == "genfn/1/"+g.elem || v.typ == "iter/"+g.elem })) > 0
}

func (g *gctx) iterExpr() *IterExpr {
	// local generator literal or iterator variable of the right element type, else an earlier generator
	locals := g.visible(func(v vinfo) bool { return v.typ == "genfn/1/"+g.elem || v.typ == "iter/"+g.elem })
	anyGen := false
	for _, gi := range g.gens {
		if gi.elem == g.elem || !g.inGen {
			anyGen = true
		}
	}
	if len(locals) > 0 && (!anyGen || g.pct(40, "localiter")) {
		v := locals[g.draw(len(locals), "li")]
		if v.typ[:4] == "iter" {
			g.prog.tag("yieldfrom-iterator-variable")
			return &IterExpr{K: "var", Name: v.name, Elem: g.elem}
		}
		return &IterExpr{K: "var", Name: v.name, Args: []*Expr{g.intExpr(1)}, Elem: g.elem}
	}
	var cands []genInfo
	for _, gi := range g.gens {
		if gi.elem == g.elem || !g.inGen {
			cands = append(cands, gi)
		}
	}
	gi := cands[g.draw(len(cands), "gen")]
	it := &IterExpr{K: "call", Name: gi.name, Elem: gi.elem}
	for i := 0; i < gi.nparam; i++ {
		it.Args = append(it.Args, g.intExpr(1))
	}
	return it
}

// itDecl: it := G(..) advanced by hand 0..2 times
func (g *gctx) itDecl() []*Stmt {
	var cands []genInfo
	for _, gi := range g.gens {
		if !g.inGen || gi.elem == g.elem {
			cands = append(cands, gi)
		}
	}
	if len(cands) == 0 {
		return []*Stmt{g.evStmt()}
	}
	gi := cands[g.draw(len(cands), "itgen")]
	it := &IterExpr{K: "call", Name: gi.name, Elem: gi.elem}
	for i := 0; i < gi.nparam; i++ {
		it.Args = append(it.Args, g.intExpr(1))
	}
	name := g.fresh("it")
	g.declare(vinfo{name: name, typ: "iter/" + gi.elem})
	out := []*Stmt{{K: "itdecl", Name: name, Iter: it}}
	n := g.draw(3, "advance")
	for i := 0; i < n; i++ {
		out = append(out, &Stmt{K: "itnext", Name: name, ID: g.ev()})
		out = append(out, &Stmt{K: "ev", ID: g.ev(), Args: []*Expr{{K: "cur", Name: name, T: gi.elem}}})
		g.prog.tag("iterator-advanced-by-hand")
	}
	return out
}

func (g *gctx) iterVars() []vinfo {
	return g.visible(func(v vinfo) bool {
		return len(v.typ) > 5 && v.typ[:5] == "iter/" && !(g.inClosure > 0 && v.hdr)
	})
}

// pullLoop: for it.MoveNext() { v := it.Current(); ... }   (pull-style consumption of an iterator variable)
func (g *gctx) pullLoop() *Stmt {
	g.depth++
	defer func() { g.depth-- }()
	g.prog.tag("pull-loop")
	vs := g.iterVars()
	it := vs[g.draw(len(vs), "pullit")]
	elem := it.typ[5:]
	s := &Stmt{K: "for", E: &Expr{K: "mn", Name: it.name}}
	g.push(false)
	defer g.pop()
	g.loops++
	g.inner = append(g.inner, "loop")
	g.postYieldLoop = append(g.postYieldLoop, false)
	g.push(false)
	ay := g.afterYield
	vn := g.fresh("c")
	first := g.evStmt()
	g.declare(vinfo{name: vn, typ: "int"})
	body := []*Stmt{first, {K: "decl", Name: vn, E: &Expr{K: "cur", Name: it.name, T: elem}}}
	if g.inGen && g.noYield == 0 && g.pct(50, "pullyield") {
		g.noteYield()
		body = append(body, &Stmt{K: "yield", E: &Expr{K: "var", Name: vn}})
	}
	body = append(body, g.stmts(3, false)...)
	g.pop()
	g.postYieldLoop = g.postYieldLoop[:len(g.postYieldLoop)-1]
	g.inner = g.inner[:len(g.inner)-1]
	g.loops--
	g.afterYield = ay || g.afterYield
	s.Body = body
	return s
}

// itAssign: it = G(..)   (an iterator variable is re-assigned, possibly inside its own pull loop)
func (g *gctx) itAssign() []*Stmt {
	vs := g.iterVars()
	it := vs[g.draw(len(vs), "asgit")]
	elem := it.typ[5:]
	var cands []genInfo
	for _, gi := range g.gens {
		if gi.elem == elem {
			cands = append(cands, gi)
		}
	}
	if len(cands) == 0 {
		return []*Stmt{g.evStmt()}
	}
	gi := cands[g.draw(len(cands), "asggen")]
	ie := &IterExpr{K: "call", Name: gi.name, Elem: gi.elem}
	for i := 0; i < gi.nparam; i++ {
		ie.Args = append(ie.Args, g.intExpr(1))
	}
	g.prog.tag("iterator-reassigned")
	return []*Stmt{{K: "itassign", Name: it.name, Iter: ie}}
}

// crangeStmt: for v := range <iterator> { ... }  (consumer-side range)
func (g *gctx) crangeStmt() *Stmt {
	g.depth++
	defer func() { g.depth-- }()
	g.prog.tag("range-over-iterator")
	it := g.iterExpr()
	s := &Stmt{K: "crange", Iter: it, Op: ":="}
	g.push(false)
	defer g.pop()
	if g.noShadowNext {
		g.noShadowNext = false
		s.Name = g.fresh("v")
	} else {
		s.Name = g.newVarName(true)
	}
	g.declare(vinfo{name: s.Name, typ: it.Elem})
	g.loops++
	g.inner = append(g.inner, "loop")
	g.postYieldLoop = append(g.postYieldLoop, false)
	g.push(false)
	ay := g.afterYield
	s.Body = g.stmts(3, true)
	g.pop()
	g.postYieldLoop = g.postYieldLoop[:len(g.postYieldLoop)-1]
	g.inner = g.inner[:len(g.inner)-1]
	g.loops--
	g.afterYield = ay || g.afterYield
	return s
}

// crangeAssign: var v T; for v = range <iterator> { ... }; use v
func (g *gctx) crangeAssign() []*Stmt {
	g.depth++
	defer func() { g.depth-- }()
	g.prog.tag("range-over-iterator", "range-over-iterator-assign")
	it := g.iterExpr()
	name := g.fresh("q")
	g.declare(vinfo{name: name, typ: it.Elem})
	s := &Stmt{K: "crange", Iter: it, Op: "=", Name: name}
	g.loops++
	g.inner = append(g.inner, "loop")
	g.postYieldLoop = append(g.postYieldLoop, false)
	g.push(false)
	ay := g.afterYield
	s.Body = g.stmts(3, true)
	if g.pct(40, "redecl") && !g.declaredInCurrent(name) && !terminating(s.Body) && !endsInBranch(s.Body) {
		// the body declares the loop variable's name again (own scope)
		s.Body = append(s.Body, &Stmt{K: "decl", Name: name, E: &Expr{K: "bin", Op: "*", L: &Expr{K: "var", Name: name, T: it.Elem}, R: lit(2)}},
			&Stmt{K: "ev", ID: g.ev(), Args: []*Expr{{K: "var", Name: name}}})
		g.prog.tag("loop-variable-redeclared-in-body")
	}
	g.pop()
	g.postYieldLoop = g.postYieldLoop[:len(g.postYieldLoop)-1]
	g.inner = g.inner[:len(g.inner)-1]
	g.loops--
	g.afterYield = ay || g.afterYield
	after := &Stmt{K: "ev", ID: g.ev(), Args: []*Expr{{K: "var", Name: name, T: it.Elem}}}
	return []*Stmt{{K: "var", Name: name, T: it.Elem}, s, after}
}

// ---- programs -----------------------------------------------------------------------------------

func allInputs(n, lo, hi int) [][]int {
	if n == 0 {
		return [][]int{{}}
	}
	var out [][]int
	for _, rest := range allInputs(n-1, lo, hi) {
		for v := lo; v <= hi; v++ {
			out = append(out, append([]int{v}, rest...))
		}
	}
	return out
}

// genProgram draws one program of the profile.
func genProgram(t *rapid.T, prof *profile, name string) *Program {
	p := &Program{Name: name, Profile: prof.name}
	g := &gctx{t: t, prof: prof, prog: p}
	ngen := prof.nGens[0] + g.draw(prof.nGens[1]-prof.nGens[0]+1, "ngens")
	for i := 0; i < ngen; i++ {
		elem := prof.elems[g.draw(len(prof.elems), "elem")]
		if i > 0 && g.pct(70, "sameelem") {
			elem = g.gens[0].elem
		}
		d := &Decl{Kind: "gen", Name: fmt.Sprintf("%sG%d", name, i), Elem: elem, NamedRet: g.pct(40, "namedret")}
		np := 1 + g.draw(2, "nparams")
		g.scope = nil
		if prof.globals {
			g.push(false) // package scope
			for _, n := range []string{"GV0", "GV1", "GV2"} {
				g.declare(vinfo{name: n, typ: "int"})
			}
			p.tag("package-level-vars")
		}
		g.push(true)
		recvExpr := ""
		if !prof.noMethods && g.pct(25, "method") {
			// generator method with a value or pointer receiver; the receiver's field is one more variable
			tn := name + "T"
			if !p.hasTag("method-generator") {
				p.Decls = append(p.Decls, &Decl{Kind: "raw", Raw: "type " + tn + " struct{ K int }"})
			}
			p.tag("method-generator")
			if g.pct(50, "ptrrecv") {
				d.Recv = "t *" + tn
				recvExpr = "(&" + tn + "{K: 2})."
				p.tag("pointer-receiver")
			} else {
				d.Recv = "t " + tn
				recvExpr = "(" + tn + "{K: 2})."
			}
			g.declare(vinfo{name: "t.K", typ: "int"})
		}
		for j := 0; j < np; j++ {
			pn := string(rune('a' + j))
			d.Params = append(d.Params, Param{pn, "int"})
			g.declare(vinfo{name: pn, typ: "int"})
		}
		g.inGen, g.elem, g.ret = true, elem, "gen"
		g.loops, g.sws, g.inner, g.depth = 0, 0, nil, 0
		g.budget = prof.maxStmts
		g.yieldsInFn = 0
		g.afterYield = false
		d.Body = g.stmts(5, false) // parameters and body share one scope
		if g.yieldsInFn == 0 {
			d.Body = append([]*Stmt{{K: "yield", E: &Expr{K: "var", Name: "a"}}}, d.Body...)
		}
		// some API calls are written with their type argument: Yield[T](e), co.YieldFrom[T](it)
		walkStmts(d.Body, func(s *Stmt) {
			if (s.K == "yield" || s.K == "yieldfrom") && s.T == "" && g.pct(8, "inst") {
				s.T = "inst"
				p.tag("explicitly-instantiated-api-call")
			}
		})
		if prof.excl("break-after-yield-in-switch") {
			if n := dropSwitchBreaks(d.Body, &g.nextEv, prof.noEv); n > 0 {
				p.tag("excluded:break-in-yielding-switch")
			}
		}
		g.pop()
		p.Decls = append(p.Decls, d)
		g.gens = append(g.gens, genInfo{name: recvExpr + d.Name, nparam: np, elem: elem})
		call := "$P" + d.Name + "("
		if recvExpr != "" {
			// (T{K: 2}).G  ->  ($PT{K: 2}).G : the type lives in the rendered package
			call = strings.Replace(recvExpr, name+"T", "$P"+name+"T", 1) + d.Name + "("
		}
		for j := 0; j < np; j++ {
			if j > 0 {
				call += ", "
			}
			call += fmt.Sprintf("$%d", j)
		}
		call += ")"
		inputs := prof.inputs
		if inputs == nil {
			inputs = allInputs(np, 0, 3)
		}
		p.Entries = append(p.Entries, &Entry{Name: d.Name, Kind: "drive", Call: call, Elem: elem, Inputs: inputs, Scripts: prof.scripts, Fuel: prof.fuel})
	}
	// consumer functions
	nc := 0
	if prof.consumers > 0 {
		nc = g.draw(prof.consumers+1, "ncons")
	}
	for i := 0; i < nc; i++ {
		d := &Decl{Kind: "fn", Name: fmt.Sprintf("%sC%d", name, i), Result: "(res int)", Params: []Param{{"a", "int"}}}
		g.scope = nil
		g.push(true)
		g.declare(vinfo{name: "a", typ: "int"})
		g.declare(vinfo{name: "res", typ: "int"})
		g.inGen, g.elem, g.ret = false, "", "none"
		g.loops, g.sws, g.inner, g.depth = 0, 0, nil, 0
		g.budget = prof.maxStmts
		g.afterYield = false
		d.Body = []*Stmt{g.consumerLoop()}
		d.Body = append(d.Body, g.stmts(2, false)...)
		g.pop()
		p.tag("consumer")
		p.Decls = append(p.Decls, d)
		p.Entries = append(p.Entries, &Entry{Name: d.Name, Kind: "call", Call: "$P" + d.Name + "($0)", Inputs: allInputs(1, 0, 3), Fuel: prof.fuel})
	}
	for i := 0; i < prof.plainFns; i++ {
		d := &Decl{Kind: "fn", Name: fmt.Sprintf("%sF%d", name, i), Result: "(res int)", Params: []Param{{"a", "int"}, {"b", "int"}}}
		g.scope = nil
		if prof.globals {
			g.push(false)
			for _, n := range []string{"GV0", "GV1", "GV2"} {
				g.declare(vinfo{name: n, typ: "int"})
			}
		}
		g.push(true)
		g.declare(vinfo{name: "a", typ: "int"})
		g.declare(vinfo{name: "b", typ: "int"})
		g.declare(vinfo{name: "res", typ: "int"})
		g.inGen, g.elem, g.ret = false, "", "none"
		g.loops, g.sws, g.inner, g.depth = 0, 0, nil, 0
		g.budget = prof.maxStmts
		g.afterYield = false
		d.Body = g.stmts(6, false)
		if !terminating(d.Body) {
			d.Body = append(d.Body, &Stmt{K: "assign", Name: "res", Op: "+=", E: g.intExpr(2)})
		}
		g.pop()
		p.tag("plain-function")
		p.Decls = append(p.Decls, d)
		p.Entries = append(p.Entries, &Entry{Name: d.Name, Kind: "call", Call: "$P" + d.Name + "($0, $1)", Inputs: allInputs(2, 0, 2), Fuel: prof.fuel})
	}
	return p
}

// consumerLoop: for v := range G(..) { res += v ...; break/continue/return }
func (g *gctx) consumerLoop() *Stmt {
	g.noShadowNext = true
	s := g.crangeStmt()
	s.Body = append([]*Stmt{{K: "assign", Name: "res", Op: "+=", E: &Expr{K: "var", Name: s.Name, T: s.Iter.Elem}}}, s.Body...)
	return s
}

func endsInBranch(list []*Stmt) bool {
	if len(list) == 0 {
		return false
	}
	k := list[len(list)-1].K
	return k == "break" || k == "continue" || k == "return" || k == "panic"
}

// ---- known-finding exclusion post-pass ------------------------------------------------------------

func containsYieldStmt(list []*Stmt) bool {
	found := false
	var walk func(l []*Stmt)
	walk = func(l []*Stmt) {
		for _, s := range l {
			if s == nil {
				continue
			}
			switch s.K {
			case "yield", "yieldraw", "yieldfrom":
				found = true
			case "raw", "rawsimple":
				if containsAny(s.Raw, "$YIELD", "$YFROM") { // also matches $YIELDT / $YFROMT
					found = true
				}
			case "closure", "closure-assign":
				continue
			case "crange":
				// a consumer-side range inside a generator only matters if its body yields
			}
			if s.Init != nil {
				walk([]*Stmt{s.Init})
			}
			if s.Post != nil {
				walk([]*Stmt{s.Post})
			}
			for _, ch := range s.children() {
				walk(ch)
			}
		}
	}
	walk(list)
	return found
}

func containsAny(s string, subs ...string) bool {
	for _, x := range subs {
		if len(x) <= len(s) {
			for i := 0; i+len(x) <= len(s); i++ {
				if s[i:i+len(x)] == x {
					return true
				}
			}
		}
	}
	return false
}

// dropSwitchBreaks replaces every break that targets a switch containing a yield (anywhere in the
// switch) by an event statement: the known finding "break in a yielding switch" is triggered by any
// such break that ends up inside a generated thunk, which depends on the statements around it.
func dropSwitchBreaks(list []*Stmt, nextEv *int, noEv ...bool) (removed int) {
	var inSwitch func(l []*Stmt) // l belongs to a yielding switch (not inside a nested loop/switch)
	var walk func(l []*Stmt)
	inSwitch = func(l []*Stmt) {
		for i, s := range l {
			switch s.K {
			case "break":
				if len(noEv) > 0 && noEv[0] {
					l[i] = &Stmt{K: "rawsimple", Raw: "_ = 0"} // event-free (goroutine-safe) profile
				} else {
					*nextEv++
					l[i] = &Stmt{K: "ev", ID: *nextEv}
				}
				removed++
			case "if":
				for cur := s; cur != nil; cur = cur.ElseIf {
					inSwitch(cur.Body)
					inSwitch(cur.Else)
				}
			case "block":
				inSwitch(s.Body)
			case "for", "range", "crange", "switch", "tswitch", "closure":
				walk([]*Stmt{s}) // breaks inside target the nested statement
			}
		}
	}
	walk = func(l []*Stmt) {
		for _, s := range l {
			switch s.K {
			case "switch", "tswitch":
				yielding := (s.Init != nil && containsYieldStmt([]*Stmt{s.Init}))
				for _, c := range s.Cases {
					if containsYieldStmt(c.Body) {
						yielding = true
					}
				}
				for _, c := range s.Cases {
					if yielding {
						inSwitch(c.Body)
					} else {
						walk(c.Body)
					}
				}
			case "closure":
				if s.Fn != nil && s.Fn.Gen {
					walk(s.Fn.Body)
				}
			default:
				for _, ch := range s.children() {
					walk(ch)
				}
			}
		}
	}
	walk(list)
	return
}
