// orch is the orchestrator of engine T (see /verif/DESIGN.md section 3).
package main

import (
	"flag"
	"fmt"
	"os"
	"path/filepath"
	"strconv"
)

func main() {
	pid := flag.String("property", "", "property id (C01..C18)")
	tier := flag.String("tier", "quick", "quick|thorough")
	seedS := flag.String("seed", "1", "seed (non-zero)")
	scratch := flag.String("scratch", "", "scratch directory (removed by the caller)")
	replay := flag.String("replay", "", "replay file to re-run")
	flag.Parse()
	seed, _ := strconv.ParseUint(*seedS, 10, 64)
	if seed == 0 {
		seed = 20240229
	}
	repo := os.Getenv("VERIF_REPO")
	if repo == "" {
		repo = "/repo"
	}
	verif := os.Getenv("VERIF_DIR")
	if verif == "" {
		verif = "/verif"
	}
	if *scratch == "" {
		d, err := os.MkdirTemp("", "verif-orch-")
		if err != nil {
			fmt.Println("INFRA:", err)
			os.Exit(2)
		}
		defer os.RemoveAll(d)
		*scratch = d
	}
	check, ok := checks[*pid]
	if !ok {
		fmt.Println("INFRA: engine T has no check for", *pid)
		os.Exit(2)
	}
	t, err := buildTools(repo, verif, *scratch, check.needU, check.needCogen)
	if err != nil {
		fmt.Println("INFRA:", err)
		os.Exit(2)
	}
	scratchGoCache = filepath.Join(*scratch, "gocache")
	_ = os.MkdirAll(scratchGoCache, 0o755)
	rs := newRunState(*pid, *tier, seed, t)
	if *replay != "" {
		os.Exit(rs.replayFile(*replay))
	}
	rs.reproduceKnown()
	check.run(rs)
	code := rs.finish()
	os.Exit(code)
}

type checkT struct {
	needU     bool
	needCogen bool
	run       func(rs *runState)
}

var checks = map[string]*checkT{}
