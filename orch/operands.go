package main

import (
	"fmt"
	"strings"
)

// Yield operand table.
//
// The optimiser removes the thunk around `Bind(<operand>, ..)` when it believes the operand can be evaluated early
// (a literal). Every widening of that belief to another expression kind is wrong as soon as the expression's value,
// effect, panic or identity depends on WHEN it is evaluated. The thunk only exists where a yield is the first
// statement of a delayed block, so the table crosses
//
//	operand kind  x  position {head of a loop body, right after a yielding if, right after a yielding loop,
//	                           head of a nested loop body, first statement of the generator}
//
// and makes the state every operand depends on change between two evaluations. Each program is compared with the
// reference and (C07) unoptimised with optimised code.

type operandKind struct {
	name   string
	decls  string // extra top-level declarations ($N = program name)
	setup  string // statements at the top of the generator (declare the state the operand reads)
	expr   string // the operand
	mutate string // statement that changes what expr evaluates to
	elem   string // element type of the generator (default int)
	logged string // how the consumer-visible value is turned into an int for the trace (default: the value itself)
}

var operandKinds = []operandKind{
	{name: "local", setup: "x := a", expr: "x", mutate: "x += 7"},
	{name: "parameter", expr: "a", mutate: "a += 7"},
	{name: "package-variable-other-file", setup: "GV0 = a", expr: "GV0", mutate: "GV0 += 7"},
	{name: "local-shadowing-a-constant", decls: "const $NK = 1000", setup: "$NK := a", expr: "$NK", mutate: "$NK += 7"},
	{name: "field", setup: "s := struct{ f int }{a}", expr: "s.f", mutate: "s.f += 7"},
	{name: "field-through-pointer", setup: "s := &struct{ f int }{a}", expr: "s.f", mutate: "s = &struct{ f int }{s.f + 7}"},
	{name: "slice-element", setup: "xs := []int{a, a + 7, a + 14, a + 21, a + 28, a + 35, a + 42, a + 49}\n\tix := 0", expr: "xs[ix]", mutate: "ix++"},
	{name: "array-element", setup: "arr := [2]int{a, 1}", expr: "arr[0]", mutate: "arr[0] += 7"},
	{name: "map-element", setup: "m := map[string]int{\"k\": a}", expr: "m[\"k\"]", mutate: "m[\"k\"] += 7"},
	{name: "pointer-dereference", setup: "x := a\n\tp := &x", expr: "*p", mutate: "x += 7"},
	{name: "closure-call", setup: "x := a\n\tget := func() int { return x }", expr: "get()", mutate: "x += 7"},
	{name: "function-variable-call", setup: "x := a\n\tget := func() int { return x }", expr: "get()", mutate: "y := x + 7\n\tget = func() int { return y }\n\tx = y"},
	{name: "declared-function-literal-arguments", decls: "func $NRead(k int) int { return GV1 + k }", setup: "GV1 = a", expr: "$NRead(3)", mutate: "GV1 += 7"},
	{name: "declared-function-no-arguments", decls: "func $NRead0() int { return GV2 }", setup: "GV2 = a", expr: "$NRead0()", mutate: "GV2 += 7"},
	{name: "generic-function-call", decls: "func $NId[T any](v T) T { return v }", setup: "x := a", expr: "$NId[int](x)", mutate: "x += 7"},
	{name: "method-call", decls: "type $NT struct{ v int }\n\nfunc (t $NT) Get() int { return t.v }", setup: "t := $NT{a}", expr: "t.Get()", mutate: "t = $NT{t.v + 7}"},
	{name: "unary", setup: "x := a", expr: "-x", mutate: "x += 7"},
	{name: "binary", setup: "x := a", expr: "x*2 + 1", mutate: "x += 7"},
	{name: "parenthesised", setup: "x := a", expr: "(x)", mutate: "x += 7"},
	{name: "conversion", setup: "y := int64(a)", expr: "int(y)", mutate: "y += 7"},
	{name: "type-assertion", setup: "var v any = a", expr: "v.(int)", mutate: "v = v.(int) + 7"},
	{name: "builtin-len", setup: "xs := make([]int, a)", expr: "len(xs)", mutate: "xs = append(xs, 1, 2, 3)"},
	{name: "logged-evaluation", setup: "x := a", expr: "tr.Vl(70, x)", mutate: "x += 7"},
	{name: "immediately-invoked-literal", setup: "x := a", expr: "func() int { return x }()", mutate: "x += 7"},
	{name: "channel-receive", setup: "ch := tr.Chan(a, a+7, a+14, a+21, a+28, a+35, a+42, a+49)", expr: "<-ch", mutate: "tr.Ev(71, len(ch))"},
	{name: "slice-expression", setup: "xs := []int{a, a + 7, a + 14, a + 21, a + 28, a + 35, a + 42, a + 49}", expr: "xs[1:][0]", mutate: "xs = xs[1:]"},
	{name: "composite-literal-struct", setup: "x := a", expr: "tr.Pt{X: x}", mutate: "x += 7", elem: "tr.Pt"},
	{name: "composite-literal-with-call-element", setup: "x := a", expr: "tr.Pt{X: tr.Vl(72, x)}", mutate: "x += 7", elem: "tr.Pt"},
	{name: "composite-literal-panicking-element", setup: "xs := []int{a, a + 1}\n\tix := 0", expr: "tr.Pt{X: xs[ix]}", mutate: "ix++", elem: "tr.Pt"},
	{name: "pointer-to-composite-literal", setup: "x := a", expr: "&tr.Pt{X: x}", mutate: "x += 7", elem: "*tr.Pt"},
	{name: "slice-literal", setup: "x := a", expr: "[]int{x, x + 1}", mutate: "x += 7", elem: "[]int"},
	{name: "function-literal", setup: "x := a", expr: "func() int { return x }", mutate: "x += 7", elem: "func() int"},
	{name: "string-concatenation", setup: "s := tr.Str(a)", expr: "s + \"!\"", mutate: "s += \"x\"", elem: "string"},
	{name: "iterator-from-call-with-literal-arguments", decls: "$GEN{$NSub(n int)}{int}{\n\tfor i := 0; i < n; i++ {\n\t\t$YIELD{i}\n\t}\n\t$RET\n}", expr: "$NSub(2)", mutate: "tr.Ev(73)", elem: "$ITER{int}"},
	{name: "iterator-from-call-without-arguments", decls: "$GEN{$NSub0()}{int}{\n\t$YIELD{5}\n\t$YIELD{6}\n\t$RET\n}", expr: "$NSub0()", mutate: "tr.Ev(74)", elem: "$ITER{int}"},
}

type operandPos struct {
	name string
	// body with $SETUP, $E (operand), $M (mutation)
	body string
}

var operandPositions = []operandPos{
	{"loop-body-head", "$SETUP\n\tfor i := 0; i < 3; i++ {\n\t\t$YIELD{$E}\n\t\t$M\n\t}\n\t$RET"},
	{"cond-loop-body-head", "$SETUP\n\tn := 0\n\tfor n < 3 {\n\t\t$YIELD{$E}\n\t\tn++\n\t\t$M\n\t}\n\t$RET"},
	{"infinite-loop-body-head", "$SETUP\n\tn := 0\n\tfor {\n\t\t$YIELD{$E}\n\t\t$M\n\t\tn++\n\t\tif n == 3 {\n\t\t\tbreak\n\t\t}\n\t}\n\t$RET"},
	{"after-yielding-if", "$SETUP\n\tfor i := 0; i < 3; i++ {\n\t\tif i == 1 {\n\t\t\t$YIELD{$E}\n\t\t}\n\t\t$YIELD{$E}\n\t\t$M\n\t}\n\t$RET"},
	{"after-yielding-loop", "$SETUP\n\tfor j := 0; j < 2; j++ {\n\t\t$YIELD{$E}\n\t\t$M\n\t}\n\t$YIELD{$E}\n\t$RET"},
	{"nested-loop-body-head", "$SETUP\n\tfor i := 0; i < 2; i++ {\n\t\tfor j := 0; j < 2; j++ {\n\t\t\t$YIELD{$E}\n\t\t\t$M\n\t\t}\n\t}\n\t$RET"},
	{"post-statement-mutates", "$SETUP\n\tfor i := 0; i < 3; func() {\n\t\ti++\n\t\t$M\n\t}() {\n\t\t$YIELD{$E}\n\t}\n\t$RET"},
	{"range-body-head", "$SETUP\n\tfor range 3 {\n\t\t$YIELD{$E}\n\t\t$M\n\t}\n\t$RET"},
	{"switch-case-head-in-loop", "$SETUP\n\tfor i := 0; i < 3; i++ {\n\t\tswitch {\n\t\tcase i >= 0:\n\t\t\t$YIELD{$E}\n\t\t\t$M\n\t\t}\n\t}\n\t$RET"},
}

func yieldOperandTable() []*Program {
	var out []*Program
	k := 0
	for _, ok := range operandKinds {
		for _, pos := range operandPositions {
			if strings.Contains(ok.mutate, "\n") && pos.name == "post-statement-mutates" && strings.Contains(ok.mutate, ":=") {
				// (declarations inside the post closure are fine: it is a function body)
			}
			k++
			name := fmt.Sprintf("E%04d", k)
			elem := ok.elem
			if elem == "" {
				elem = "int"
			}
			body := pos.body
			setup := ok.setup
			body = strings.ReplaceAll(body, "$SETUP", setup)
			body = strings.ReplaceAll(body, "$E", ok.expr)
			body = strings.ReplaceAll(body, "$M", strings.ReplaceAll(ok.mutate, "\n\t", "\n\t\t"))
			if setup == "" {
				body = strings.TrimPrefix(body, "\n\t")
			}
			raw := ""
			if ok.decls != "" {
				raw = ok.decls + "\n\n"
			}
			raw += "$GEN{" + name + "G(a int)}{" + elem + "}{\n\t" + body + "\n}"
			raw = strings.ReplaceAll(raw, "$N", name)
			p := &Program{Name: name, Profile: "yield-operand-table", Tags: []string{"yield-operand", "operand:" + ok.name, "position:" + pos.name}}
			p.Decls = []*Decl{{Kind: "raw", Raw: raw}}
			if strings.HasPrefix(elem, "$ITER") {
				// iterator-valued operands: the consumer holds all yielded iterators and drains them round robin
				cons := "\n\nfunc " + name + "C(a int) (res int) {\n\tvar its []$ITER{int}\n\tfor it := range $RANGE{" + name + "G(a)} {\n\t\tits = append(its, it)\n\t}\n" +
					"\tfor alive := true; alive; {\n\t\talive = false\n\t\tfor i, it := range its {\n\t\t\tif it.MoveNext() {\n\t\t\t\talive = true\n\t\t\t\ttr.Ev(75, i, it.Current())\n\t\t\t\tres = res*3 + it.Current()\n\t\t\t}\n\t\t}\n\t}\n\treturn\n}"
				p.Decls[0].Raw += cons
				p.Entries = []*Entry{callEntry(name+"C", 1, [][]int{{1}})}
			} else {
				p.Entries = []*Entry{drive(name+"G", elem, 1, [][]int{{1}, {2}})}
			}
			out = append(out, p)
		}
	}
	// first statement of the generator: the operand must be evaluated by the first advance, not by the call
	for _, v := range []struct{ name, param, arg, expr, before, between string }{
		{"pointer-parameter", "p *int", "&cell", "*p", "cell := a", "cell += 7"},
		{"package-variable", "_ int", "0", "GV0", "GV0 = a", "GV0 += 7"},
		{"closure-parameter", "get func() int", "func() int { return cell }", "get()", "cell := a", "cell += 7"},
		{"slice-parameter", "xs []int", "cells", "xs[0]", "cells := []int{a}", "cells[0] += 7"},
	} {
		k++
		name := fmt.Sprintf("E%04d", k)
		raw := "$GEN{" + name + "G(" + v.param + ")}{int}{\n\t$YIELD{" + v.expr + "}\n\t$YIELD{" + v.expr + " + 100}\n\t$RET\n}\n\n" +
			"func " + name + "C(a int) (res int) {\n\t" + v.before + "\n\tit := " + name + "G(" + v.arg + ")\n\t" + v.between + "\n\ttr.Ev(76)\n\tfor it.MoveNext() {\n\t\tres = res*1000 + it.Current()\n\t\t" + v.between + "\n\t}\n\treturn\n}"
		p := &Program{Name: name, Profile: "yield-operand-table", Tags: []string{"yield-operand", "operand:" + v.name, "position:first-statement-of-generator"}}
		p.Decls = []*Decl{{Kind: "raw", Raw: raw}}
		p.Entries = []*Entry{callEntry(name+"C", 1, [][]int{{1}, {2}})}
		out = append(out, p)
	}
	return out
}
