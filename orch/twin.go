package main

import (
	"encoding/json"
	"fmt"
	"strings"

	"pgregory.net/rapid"
)

type rapidT = rapid.T

// twinOf builds the metamorphic twin of p (C05): every YieldFrom(x) becomes
// `for v := range x { Yield(v) }`; declarations are renamed P.. -> P..M.
func twinOf(p *Program) *Program {
	b, _ := json.Marshal(p)
	var c Program
	_ = json.Unmarshal([]byte(strings.ReplaceAll(string(b), p.Name, p.Name+"M")), &c)
	c.Twin = ""
	n := 0
	var rewrite func(list []*Stmt)
	rewrite = func(list []*Stmt) {
		for i, s := range list {
			if s.K == "yieldfrom" {
				n++
				vn := fmt.Sprintf("yf%d", n)
				list[i] = &Stmt{K: "crange", Name: vn, Op: ":=", Iter: s.Iter, Body: []*Stmt{{K: "yieldraw", Raw: vn}}}
				continue
			}
			if s.Init != nil {
				rewrite([]*Stmt{s.Init})
			}
			for _, ch := range s.children() {
				rewrite(ch)
			}
		}
	}
	for _, d := range c.Decls {
		rewrite(d.Body)
		// yieldfrom in init/post positions cannot become a for statement: keep those programs untwinned
	}
	c.Entries = nil
	return &c
}

func hasYieldFromInHeader(p *Program) bool {
	found := false
	for _, d := range p.Decls {
		walkStmts(d.Body, func(s *Stmt) {
			if (s.Init != nil && s.Init.K == "yieldfrom") || (s.Post != nil && s.Post.K == "yieldfrom") {
				found = true
			}
		})
	}
	return found
}

// expandTwins returns the programs to render: originals plus twins; entries of the original get
// the alternative variant "m" calling the twin's compiled function.
func expandTwins(progs []*Program) []*Program {
	var out []*Program
	for _, p := range progs {
		out = append(out, p)
		if p.Twin == "yieldfrom-to-range" && !hasYieldFromInHeader(p) {
			out = append(out, twinOf(p))
		}
	}
	return out
}

// recursionPrograms: tree and chain walks with YieldFrom at several positions (C05)
func recursionPrograms(deep bool) []*Program {
	var out []*Program
	n := 0
	for _, pre := range []bool{true, false} {
		for _, in := range []bool{true, false} {
			for _, second := range []bool{true, false} {
				for _, post := range []bool{true, false} {
					if !pre && !in && !post {
						continue
					}
					n++
					name := fmt.Sprintf("T%03d", n)
					g := name + "W"
					var body []*Stmt
					body = append(body, evS(1, v("n"), v("t")))
					body = append(body, &Stmt{K: "if", E: cmp("<=", v("n"), lit(0)), Body: []*Stmt{{K: "return"}}})
					rec := func(dt int) *Stmt {
						return &Stmt{K: "yieldfrom", Iter: &IterExpr{K: "call", Name: g, Elem: "int", Args: []*Expr{bin("-", v("n"), lit(1)), bin("+", bin("*", v("t"), lit(2)), lit(dt))}}}
					}
					if pre {
						body = append(body, yS(bin("+", bin("*", v("n"), lit(1000)), v("t"))))
					}
					body = append(body, rec(1))
					if in {
						body = append(body, yS(bin("+", bin("*", v("n"), lit(100)), v("t"))))
					}
					if second {
						body = append(body, rec(2))
					}
					if post {
						body = append(body, evS(2, v("n")), yS(bin("-", lit(0), v("n"))))
					}
					p := &Program{Name: name, Profile: "recursion", Tags: []string{"recursion", "yieldfrom"}, Twin: "yieldfrom-to-range"}
					p.Decls = []*Decl{{Kind: "gen", Name: g, Params: []Param{{"n", "int"}, {"t", "int"}}, Elem: "int", Body: body}}
					inputs := [][]int{{0, 0}, {1, 0}, {2, 0}, {3, 1}, {4, 0}}
					sc := []string{"std", "short"}
					fuel := 2000
					if !second {
						// chain: deep delegation
						d := 40
						if deep {
							d = 200
						}
						inputs = append(inputs, []int{d, 0})
						sc = []string{"long", "short"}
						fuel = 5000
						p.tag("deep-chain")
					}
					p.Entries = []*Entry{{Name: g, Kind: "drive", Call: "$P" + g + "($0, $1)", Elem: "int", Inputs: inputs, Scripts: sc, Fuel: fuel}}
					out = append(out, p)
				}
			}
		}
	}
	return out
}

func rapidInt(t *rapid.T, lo, hi int, label string) int {
	if hi < lo {
		hi = lo
	}
	return rapid.IntRange(lo, hi).Draw(t, label)
}
