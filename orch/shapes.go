package main

import (
	"fmt"
	"strings"
)

// Hand-written shape tables (raw templates). $N is replaced by the program name; the renderer
// expands $YIELD{..} $YFROM{..} $ITER{..} $RANGE{..} $RET $CO per rendering.

type shape struct {
	name    string
	tags    []string
	decls   string   // top-level declarations
	entries []*Entry // Call templates may use $N
	unordered bool
	imports []string // extra imports of the file the shape is rendered into
}

func mkShapeProgram(name string, sh shape) *Program {
	p := &Program{Name: name, Profile: "shape:" + sh.name, Tags: append([]string{sh.name}, sh.tags...), Unordered: sh.unordered, Imports: sh.imports}
	p.Decls = []*Decl{{Kind: "raw", Raw: strings.ReplaceAll(sh.decls, "$N", name)}}
	for _, e := range sh.entries {
		c := *e
		c.Name = strings.ReplaceAll(c.Name, "$N", name)
		c.Call = strings.ReplaceAll(c.Call, "$N", name)
		p.Entries = append(p.Entries, &c)
	}
	return p
}

func drive(name, elem string, nargs int, inputs [][]int) *Entry {
	call := "$P" + name + "("
	for i := 0; i < nargs; i++ {
		if i > 0 {
			call += ", "
		}
		call += fmt.Sprintf("$%d", i)
	}
	call += ")"
	if inputs == nil {
		inputs = allInputs(nargs, 0, 3)
	}
	return &Entry{Name: name, Kind: "drive", Call: call, Elem: elem, Inputs: inputs, Scripts: []string{"std"}}
}

func callEntry(name string, nargs int, inputs [][]int) *Entry {
	call := "$P" + name + "("
	for i := 0; i < nargs; i++ {
		if i > 0 {
			call += ", "
		}
		call += fmt.Sprintf("$%d", i)
	}
	call += ")"
	if inputs == nil {
		inputs = allInputs(nargs, 0, 3)
	}
	return &Entry{Name: name, Kind: "call", Call: call, Inputs: inputs}
}

// a small generator every consumer shape can use: yields a, a+1, a+2 with an event before each
const baseGen = `
$GEN{$NG(a int)}{int}{
	for i := 0; i < 3; i++ {
		tr.Ev(900, a, i)
		$YIELD{a + i}
	}
	tr.Ev(901, a)
	$RET
}
`

// shapes of recorded known findings: only generated with VERIF_INCLUDE_KNOWN=1 (their replays under findings/ are
// re-executed by the owning check on every run)
var knownFindingShapes = map[string]shape{
	// known finding local-shadows-element-type (C11): the generated code names the element type inside the user's scopes
	"local-shadows-element-type": {name: "local-named-like-the-element-type", decls: `
type $Ntoken struct{ kind, n int }

$GEN{$NLex(a int)}{$Ntoken}{
	for i := 0; i < 2; i++ {
		$Ntoken := $Ntoken{a, i}
		$YIELD{$Ntoken}
	}
	$RET
}

func $NC(a int) (res int) {
	for t := range $RANGE{$NLex(a)} {
		res = res*10 + t.kind + t.n
	}
	return
}`, entries: []*Entry{callEntry("$NC", 1, nil)}},
}

// ---- C06: consumer-side shapes and iterator type positions ---------------------------------------

var consumerShapes = []shape{
	{name: "range-define-break", decls: baseGen + `
func $NC(a int) (res int) {
	for v := range $RANGE{$NG(a)} {
		tr.Ev(1, v)
		if v > a {
			break
		}
		res += v
	}
	tr.Ev(2, res)
	return
}`, entries: []*Entry{callEntry("$NC", 1, nil)}},
	{name: "range-assign-local", decls: baseGen + `
func $NC(a int) (res int) {
	var v int
	for v = range $RANGE{$NG(a)} {
		if v == a+1 {
			continue
		}
		res += v
	}
	return res*100 + v
}`, entries: []*Entry{callEntry("$NC", 1, nil)}},
	{name: "range-assign-redeclared-in-body", decls: baseGen + `
func $NC(a int) (res int) {
	var v int
	for v = range $RANGE{$NG(a)} {
		v := v * 2
		res += v
	}
	tr.Ev(1, v)
	return res*1000 + v
}`, entries: []*Entry{callEntry("$NC", 1, nil)}},
	{name: "range-define-redeclared-in-body", decls: baseGen + `
func $NC(a int) (res int) {
	v := 77
	for v := range $RANGE{$NG(a)} {
		var v = v * 2
		res += v
	}
	return res*1000 + v
}`, entries: []*Entry{callEntry("$NC", 1, nil)}},
	// `n, m := ..` where n is already declared in the same block: n is ASSIGNED, only m is new (after a yield the
	// statement sits in a nested closure, where a naive translation declares a second n)
	{name: "mixed-define-reuses-variable-redeclared-after-yield", decls: baseGen + `
$GEN{$NH(a int)}{int}{
	n := 0
	get := func() int { return n }
	$YIELD{1}
	n, m := 5+a, 6
	$YIELD{get() + m}
	$YIELD{n}
	for i := 0; i < 2; i++ {
		s, err := i, a
		$YIELD{s + err}
		t, err := s+1, err+10
		$YIELD{t + err}
		if i == 1 {
			$YIELD{get() + err}
		}
	}
	$RET
}`, entries: []*Entry{drive("$NH", "int", 1, nil)}},
	// (the reference rendering moves the body into a func literal, where a partial redeclaration of a PARAMETER would itself
	// declare a new variable: those statements are written as plain assignments on the reference side)
	// partial redeclarations of PARAMETERS / receivers / named results (they have no declaring statement in the body) before
	// any yield, the re-used name never read afterwards; and after a suspension that is a YieldFrom, not a Yield
	{name: "mixed-define-redeclared-parameter-and-after-yieldfrom", decls: baseGen + `
type $NL struct {
	Val  int
	Next *$NL
}

$GEN{(l *$NL) Head()}{int}{
	$SONLY{v, l := l.Val, l.Next}$RONLY{v := l.Val; l = l.Next}
	$YIELD{v}
	$RET
}

$GEN{$NH(a int)}{int}{
	$SONLY{h, a := a*2, 7}$RONLY{h := a * 2; a = 7}
	$YIELD{h}
	n := 0
	get := func() int { return n }
	$YFROM{$NG(1)}
	n, m := 5+h, 6
	$YIELD{get() + m}
	for x := range $RANGE{(&$NL{3, nil}).Head()} {
		$YIELD{x}
	}
	$RET
}

$GEN{$NK(s int)}{int}{
	$SONLY{first, s, ok := s%10, s/10, s > 9}$RONLY{first, ok := s%10, s > 9; s = s / 10}
	if ok {
		$YIELD{first}
	}
	$YIELD{first + 1}
	$RET
}`, entries: []*Entry{drive("$NH", "int", 1, nil), drive("$NK", "int", 1, [][]int{{5}, {42}})}},
	// partial redeclarations whose re-used variable needs the typed context of the assignment (untyped constants, nil)
	{name: "mixed-define-redeclared-typed-variable-with-untyped-constant", decls: baseGen + `
$GEN{$NH(a int)}{int}{
	var n float64
	var p *int
	var b tr.MyInt
	getn := func() int { return int(n * 2) }
	$YIELD{1}
	n, m := 1, a
	$YIELD{getn() + m}
	p, q := nil, a+1
	b, c := 3, "x"
	if p == nil {
		$YIELD{q + int(b) + len(c)}
	}
	n, k, ok := 2.5, a, true
	if ok {
		$YIELD{getn() + k}
	}
	$RET
}`, entries: []*Entry{drive("$NH", "int", 1, nil)}},
	// the body declares the loop variable again TOGETHER WITH a new name (legal next to the first declaration, so a
	// lowering that puts both into one scope still builds) after closures captured the range variable
	{name: "range-define-redeclared-with-new-name-after-capture", decls: baseGen + `
func $NC(a int) (res int) {
	for v := range $RANGE{$NG(a)} {
		get := func() int { return v }
		bump := func() { v += 100 }
		k, v := 1000, v*10
		bump()
		tr.Ev(1, get(), v, k)
		res += get() + v + k
	}
	return
}`, entries: []*Entry{callEntry("$NC", 1, nil)}},
	{name: "range-define-redeclared-with-new-name-in-generator", decls: baseGen + `
$GEN{$NH(a int)}{int}{
	for v := range $RANGE{$NG(a)} {
		get := func() int { return v }
		bump := func() { v += 100 }
		v, k := v*10, 1000
		bump()
		$YIELD{get()}
		$YIELD{v + k}
	}
	$RET
}`, entries: []*Entry{drive("$NH", "int", 1, nil)}},
	{name: "range-assign-redeclared-with-new-name-pointer", decls: baseGen + `
func $NC(a int) (res int) {
	var v int
	for v = range $RANGE{$NG(a)} {
		p := &v
		v, k := v+1, 5
		*p += 10
		res += v*k + *p
	}
	return res*1000 + v
}`, entries: []*Entry{callEntry("$NC", 1, nil)}},
	// range over an iterator without any variable (`for range it`)
	{name: "range-without-variables", decls: baseGen + `
func $NC(a int) (n int) {
	for range $RANGE{$NG(a)} {
		n++
		if n == 2 {
			break
		}
	}
	for range $RANGE{$NG(a)} {
		n += 10
	}
	return
}

$GEN{$NH(a int)}{int}{
	n := 0
	for range $RANGE{$NG(a)} {
		n++
		$YIELD{n}
	}
	$RET
}`, entries: []*Entry{callEntry("$NC", 1, nil), drive("$NH", "int", 1, nil)}},
	// locals named like the import names a file may already use for the runtime package (seq, sq): the generated
	// code must not refer to the package through a name the generator's own locals shadow
	{name: "locals-named-like-the-runtime-import", decls: baseGen + `
$GEN{$NH(a int)}{int}{
	seq, sq := a*2, 1
	for i := 0; i < 2; i++ {
		$YIELD{seq + i*sq}
	}
	for v := range $RANGE{$NG(seq)} {
		sq += v
	}
	$YIELD{sq}
	$RET
}`, entries: []*Entry{drive("$NH", "int", 1, nil)}},
	{name: "range-assign-field", decls: baseGen + `
type $NS struct{ v, n int }

func $NC(a int) (res int) {
	s := &$NS{}
	for s.v = range $RANGE{$NG(a)} {
		s.n++
		tr.Ev(1, s.v, s.n)
		if s.n == 2 {
			return s.v
		}
	}
	return -1
}`, entries: []*Entry{callEntry("$NC", 1, nil)}},
	{name: "range-return-inside", decls: baseGen + `
func $NC(a int) int {
	for v := range $RANGE{$NG(a)} {
		if v%2 == 1 {
			return v
		}
	}
	return -1
}`, entries: []*Entry{callEntry("$NC", 1, nil)}},
	{name: "nested-ranges", decls: baseGen + `
func $NC(a int) (res int) {
	for v := range $RANGE{$NG(a)} {
		for w := range $RANGE{$NG(v)} {
			if w > v+1 {
				break
			}
			res = res*3 + w
		}
		if v > a {
			break
		}
	}
	return
}`, entries: []*Entry{callEntry("$NC", 1, nil)}},
	{name: "pull-then-range", decls: baseGen + `
func $NC(a int) (res int) {
	it := $NG(a)
	if it.MoveNext() {
		res = it.Current() * 1000
	}
	for v := range $RANGE{it} {
		res += v
		break
	}
	for it.MoveNext() {
		res = res*10 + it.Current()
	}
	return
}`, entries: []*Entry{callEntry("$NC", 1, nil)}},
	{name: "range-then-pull", decls: baseGen + `
func $NC(a int) (res int) {
	it := $NG(a)
	for v := range $RANGE{it} {
		res += v
		if a%2 == 0 {
			break
		}
	}
	tr.Ev(1, res)
	ok := it.MoveNext()
	tr.Ev(2, ok, it.Current())
	return
}`, entries: []*Entry{callEntry("$NC", 1, nil)}},
	{name: "struct-field", decls: baseGen + `
type $NH struct {
	it $ITER{int}
	n  int
}

func $NC(a int) (res int) {
	h := $NH{it: $NG(a), n: a}
	for v := range $RANGE{h.it} {
		res += v
		if v > h.n {
			break
		}
	}
	for h.it.MoveNext() {
		res = res*10 + h.it.Current()
	}
	return
}`, entries: []*Entry{callEntry("$NC", 1, nil)}},
	{name: "slice-of-iterators", decls: baseGen + `
func $NC(a int) (res int) {
	its := []$ITER{int}{$NG(a), $NG(a + 5)}
	for _, it := range its {
		for v := range $RANGE{it} {
			res += v
			break
		}
	}
	for its[1].MoveNext() {
		res = res*10 + its[1].Current()
	}
	return
}`, entries: []*Entry{callEntry("$NC", 1, nil)}},
	{name: "map-of-iterators", decls: baseGen + `
func $NC(a int) (res int) {
	m := map[string]$ITER{int}{"x": $NG(a)}
	for v := range $RANGE{m["x"]} {
		res += v
	}
	return
}`, entries: []*Entry{callEntry("$NC", 1, nil)}},
	{name: "param-and-result", decls: baseGen + `
func $NTake(it $ITER{int}, n int) (out []int) {
	for v := range $RANGE{it} {
		if n == 0 {
			return
		}
		n--
		out = append(out, v)
	}
	return
}

func $NMk(a int) $ITER{int} { return $NG(a + 1) }

func $NC(a int) int {
	it := $NMk(a)
	x := $NTake(it, 2)
	y := $NTake(it, 5)
	return len(x)*100 + len(y)*10 + tr.I(tr.Fmt(x)+tr.Fmt(y))%7
}`, entries: []*Entry{callEntry("$NC", 1, nil)}},
	{name: "closure-capturing-iterator", decls: baseGen + `
func $NC(a int) (res int) {
	it := $NG(a)
	next := func() (int, bool) {
		if it.MoveNext() {
			return it.Current(), true
		}
		return 0, false
	}
	for {
		v, ok := next()
		if !ok || v > a+1 {
			break
		}
		res += v
	}
	return
}`, entries: []*Entry{callEntry("$NC", 1, nil)}},
	{name: "channel-of-iterators", decls: baseGen + `
func $NC(a int) (res int) {
	ch := make(chan $ITER{int}, 2)
	ch <- $NG(a)
	ch <- $NG(a * 2)
	close(ch)
	for it := range ch {
		for v := range $RANGE{it} {
			res = res*2 + v
		}
	}
	return
}`, entries: []*Entry{callEntry("$NC", 1, nil)}},
	{name: "generic-container", decls: baseGen + `
type $NBox[T any] struct{ it $ITER{T} }

func (b $NBox[T]) First() (z T, ok bool) {
	for v := range $RANGE{b.it} {
		return v, true
	}
	return
}

func $NC(a int) int {
	b := $NBox[int]{it: $NG(a)}
	x, _ := b.First()
	y, ok := b.First()
	tr.Ev(1, x, y, ok)
	return x*10 + y
}`, entries: []*Entry{callEntry("$NC", 1, nil)}},
	{name: "generic-generator", decls: `
$GEN{$NG[T any](xs ...T)}{T}{
	for _, x := range xs {
		tr.Ev(900)
		$YIELD{x}
	}
	$RET
}

func $NC(a int) (res int) {
	for s := range $RANGE{$NG("a", "bb", "ccc")} {
		res += len(s)
	}
	for v := range $RANGE{$NG[int](a, a+1)} {
		res = res*10 + v
	}
	return
}`, entries: []*Entry{callEntry("$NC", 1, nil)}},
	{name: "explicitly-instantiated-api", decls: baseGen + `
$GEN{$NW(a int)}{int}{
	$YIELDT{int}{a}
	$YFROMT{int}{$NG(a + 1)}
	$YIELDT{int}{-a}
	$RET
}

func $NC(a int) (res int) {
	for v := range $RANGE{$NW(a)} {
		res = res*3 + v
	}
	return
}`, entries: []*Entry{callEntry("$NC", 1, nil), drive("$NW", "int", 1, nil)}},
	{name: "method-generators", decls: `
type $NT struct{ Base int }

$GEN{(t $NT) Vals(n int)}{int}{
	for i := 0; i < n; i++ {
		$YIELD{t.Base + i}
	}
	$RET
}

$GEN{(t *$NT) Bump(n int)}{int}{
	for i := 0; i < n; i++ {
		t.Base++
		tr.Ev(1, t.Base)
		$YIELD{t.Base}
	}
	$RET
}

func $NC(a int) (res int) {
	t := &$NT{Base: a}
	for v := range $RANGE{t.Vals(2)} {
		res += v
	}
	for v := range $RANGE{t.Bump(2)} {
		res = res*10 + v
	}
	return res*10 + t.Base
}`, entries: []*Entry{callEntry("$NC", 1, nil), drive("$NT{Base: 5}.Vals", "int", 1, nil)}},
	{name: "var-decl-and-type-args", decls: baseGen + `
type $NPair[A, B any] struct {
	a A
	b B
}

func $NC(a int) (res int) {
	var it $ITER{int} = $NG(a)
	p := $NPair[$ITER{int}, []$ITER{int}]{a: it, b: []$ITER{int}{$NG(a + 1)}}
	var f func(int) $ITER{int} = $NG
	for v := range $RANGE{p.a} {
		res += v
	}
	for v := range $RANGE{p.b[0]} {
		res = res*2 + v
	}
	for v := range $RANGE{f(1)} {
		res = res*2 + v
		break
	}
	return
}`, entries: []*Entry{callEntry("$NC", 1, nil)}},
	{name: "iterator-of-iterators", decls: baseGen + `
$GEN{$NGG(a int)}{$ITER{int}}{
	for i := 0; i < 2; i++ {
		$YIELD{$NG(a + i)}
	}
	$RET
}

func $NC(a int) (res int) {
	for it := range $RANGE{$NGG(a)} {
		for v := range $RANGE{it} {
			res = res*2 + v
			if v > a+1 {
				break
			}
		}
	}
	return
}`, entries: []*Entry{callEntry("$NC", 1, nil)}},
	{name: "interface-holding-iterator", decls: baseGen + `
type $NSrc interface{ Items() $ITER{int} }

type $NImpl struct{ a int }

func (s $NImpl) Items() $ITER{int} { return $NG(s.a) }

func $NC(a int) (res int) {
	var s $NSrc = $NImpl{a}
	for v := range $RANGE{s.Items()} {
		res += v
	}
	return
}`, entries: []*Entry{callEntry("$NC", 1, nil)}},
}

// ---- C13: bystander declarations (oracle: the source package itself, built natively) -------------

// every bystander program also contains a generator so that the file is processed
const byGen = `
$GEN{$NGen(a int)}{int}{
	$YIELD{a}
	$RET
}
`

var bystanderShapes = []shape{
	{name: "plain-functions", decls: byGen + `
const (
	$NK0 = iota * 3
	$NK1
	$NK2
)

type $NT struct{ x int }

func (t $NT) Get() int   { return t.x }
func (t *$NT) Set(v int) { t.x = v }

var $NInit = func() int { return $NK2 + 1 }()

func $NB(a int) int {
	t := &$NT{a}
	t.Set(t.Get()*2 + $NK1 + $NInit)
	f := func(p int) int { return p + t.x }
	return f(a)
}`, entries: []*Entry{callEntry("$NB", 1, nil)}},
	{name: "eta-mutable-func-var", tags: []string{"eta-shape"}, decls: byGen + `
var $NF = func(x int) int { return x + 1 }

func $NB(a int) int {
	g := func(x int) int { return $NF(x) }
	$NF = func(x int) int { return x * 10 }
	r := g(a)
	$NF = func(x int) int { return x + 1 }
	return r
}`, entries: []*Entry{callEntry("$NB", 1, nil)}},
	{name: "eta-local-func-var", tags: []string{"eta-shape"}, decls: byGen + `
func $NB(a int) int {
	f := func(x int) int { return x + 1 }
	g := func(x int) int { return f(x) }
	f = func(x int) int { return x * 10 }
	return g(a)
}`, entries: []*Entry{callEntry("$NB", 1, nil)}},
	{name: "eta-method-value", tags: []string{"eta-shape"}, decls: byGen + `
type $NT struct{ x int }

func (t $NT) Get() int { return t.x }

func $NB(a int) int {
	t := $NT{a}
	g := func() int { return t.Get() }
	t = $NT{a + 100}
	return g()
}`, entries: []*Entry{callEntry("$NB", 1, nil)}},
	{name: "eta-nil-receiver", tags: []string{"eta-shape"}, decls: byGen + `
type $NI interface{ Get() int }
type $NT struct{ x int }

func (t $NT) Get() int { return t.x }

func $NB(a int) int {
	var i $NI
	g := func() int { return i.Get() }
	i = $NT{a}
	return g()
}`, entries: []*Entry{callEntry("$NB", 1, nil)}},
	{name: "eta-builtin-len", tags: []string{"eta-shape"}, decls: byGen + `
func $NApply(f func(string) int, s string) int { return f(s) }

func $NB(a int) int {
	return $NApply(func(s string) int { return len(s) }, tr.Str(a))
}`, entries: []*Entry{callEntry("$NB", 1, nil)}},
	{name: "eta-conversion", tags: []string{"eta-shape"}, decls: byGen + `
type $NMy int

func $NB(a int) int {
	conv := func(x int) $NMy { return $NMy(x) }
	return int(conv(a)) + 1
}`, entries: []*Entry{callEntry("$NB", 1, nil)}},
	{name: "eta-variadic-spread", tags: []string{"eta-shape"}, decls: byGen + `
func $NSum(xs ...int) (s int) {
	for _, x := range xs {
		s += x
	}
	return
}

func $NB(a int) int {
	f := func(xs []int) int { return $NSum(xs...) }
	return f([]int{a, a, 1})
}`, entries: []*Entry{callEntry("$NB", 1, nil)}},
	{name: "eta-generic", tags: []string{"eta-shape"}, decls: byGen + `
func $NId[T any](x T) T { return x }

func $NB(a int) int {
	f := func(x int) int { return $NId(x) }
	g := func(x int) int { return $NId[int](x) }
	return f(a) + g(a)
}`, entries: []*Entry{callEntry("$NB", 1, nil)}},
	{name: "eta-partially-instantiated-generic", tags: []string{"eta-shape"}, decls: byGen + `
func $NConv[R, T any](x T) R {
	var r R
	if v, ok := any(x).(R); ok {
		r = v
	}
	return r
}

func $NPair[A, B any](a A, b B) int { return len(fmt.Sprint(a, b)) }

var $NK = func(x string) int { return $NConv[int](x) }

func $NB(a int) int {
	f := func(x int) any { return $NConv[any](x) }
	g := func(x int, y string) int { return $NPair[int](x, y) }
	h := func(x int, y string) int { return $NPair[int, string](x, y) }
	return $NK("s") + f(a).(int) + g(a, "q") + h(a, "qq")
}`, imports: []string{`"fmt"`}, entries: []*Entry{callEntry("$NB", 1, nil)}},
	{name: "eta-declared-func", tags: []string{"eta-shape"}, decls: byGen + `
func $NInc(x int) int { return x + 1 }

func $NB(a int) int {
	f := func(x int) int { return $NInc(x) }
	return f(a)
}`, entries: []*Entry{callEntry("$NB", 1, nil)}},
	{name: "eta-args-permuted-or-repeated", tags: []string{"eta-shape"}, decls: byGen + `
func $NSub(x, y int) int { return x*10 - y }

func $NSub3(x, y, z int) int { return x*100 + y*10 - z }

var $NFlip = func(p, q int) int { return $NSub(q, p) }

func $NB(a int) int {
	same := func(p, q int) int { return $NSub(p, q) }
	twice := func(p, q int) int { return $NSub(p, p) }
	rot := func(p, q, r int) int { return $NSub3(q, r, p) }
	shadow := func(p, q int) int {
		return func(q, p int) int { return $NSub(p, q) }(p, q)
	}
	return same(a, 1) + 7*$NFlip(a, 2) + 13*twice(a, 3) + 17*rot(a, 1, 2) + 19*shadow(a, 5)
}`, entries: []*Entry{callEntry("$NB", 1, nil)}},
	{name: "eta-fewer-or-more-args", tags: []string{"eta-shape"}, decls: byGen + `
func $NAdd(x, y int) int { return x + 2*y }

func $NOne(x int) int { return x + 1 }

func $NB(a int) int {
	k := 5
	part := func(p int) int { return $NAdd(p, k) }
	drop := func(p, q int) int { return $NOne(p) }
	cnst := func(p int) int { return $NOne(3) }
	k = 9
	return part(a) + 3*drop(a, 100) + 5*cnst(a)
}`, entries: []*Entry{callEntry("$NB", 1, nil)}},
	{name: "eta-in-generator-body", tags: []string{"eta-shape"}, decls: `
$GEN{$NGen(a int)}{int}{
	f := func(x int) int { return x + 1 }
	g := func(x int) int { return f(x) }
	$YIELD{g(a)}
	f = func(x int) int { return x * 10 }
	$YIELD{g(a)}
	$RET
}`, entries: []*Entry{drive("$NGen", "int", 1, nil)}},
	// callee expressions that are not names: a func-typed field, an element of a slice of funcs, a dereferenced pointer to a func,
	// a method expression, the result of a call - each re-assigned between the creation of the closure and its call
	{name: "eta-callee-is-field-index-deref-or-call-result", tags: []string{"eta-shape"}, decls: byGen + `
type $NH struct{ f func(int) int }

type $NM struct{ k int }

func (m $NM) Add(x int) int { return x + m.k }

func $NPick(n *int) func(int) int {
	*n++
	tr.Ev(1, *n)
	return func(x int) int { return x + *n }
}

func $NB(a int) int {
	inc := func(x int) int { return x + 1 }
	dbl := func(x int) int { return x * 2 }
	h := $NH{f: inc}
	fs := []func(int) int{inc, dbl}
	pf := &inc
	calls := 0
	g1 := func(x int) int { return h.f(x) }
	g2 := func(x int) int { return fs[0](x) }
	g3 := func(x int) int { return (*pf)(x) }
	g4 := func(m $NM, x int) int { return $NM.Add(m, x) }
	g5 := func(x int) int { return $NPick(&calls)(x) }
	h.f = dbl
	fs[0] = dbl
	pf = &dbl
	tr.Ev(2, calls)
	return g1(a) + 10*g2(a) + 100*g3(a) + 1000*g4($NM{3}, a) + 10000*g5(a) + 100000*g5(a)
}`, entries: []*Entry{callEntry("$NB", 1, nil)}},
	// closures whose type differs from the callee's: unnamed parameters, a wider result type, a variadic parameter handed on as a slice
	{name: "eta-literal-type-differs-from-callee", tags: []string{"eta-shape"}, decls: byGen + `
func $NZero() int            { return 40 }
func $NIdent(x int) int      { return x + 1 }
func $NTotal(xs []int) int   { return len(xs) * 7 }

var $NA func(int) int = func(int) int { return $NZero() }
var $NV func(...int) int = func(xs ...int) int { return $NTotal(xs) }
var $NW func(int) any = func(x int) any { return $NIdent(x) }

func $NB(a int) int {
	c := func(x int) any { return $NIdent(x) }
	var any1 any = c(a)
	return $NA(a) + $NV(a, a, a) + $NW(a).(int) + any1.(int)
}`, entries: []*Entry{callEntry("$NB", 1, nil)}},
	// the closure's parameter type is the file's ONLY use of the import; after eta reduction the import must go
	// (the callee lives in another file of the package)
	{name: "eta-param-type-is-the-only-use-of-an-import", tags: []string{"eta-shape"}, imports: []string{`"time"`}, decls: byGen + `
var $NF = func(d time.Duration) int { return GVDur(d) }

func $NB(a int) int {
	g := func(d time.Duration) int { return GVDur(d) }
	return $NF(3000000) + g(5000000) + a
}`, entries: []*Entry{callEntry("$NB", 1, nil)}},
	{name: "eta-param-type-only-import-in-generator-body", tags: []string{"eta-shape"}, imports: []string{`"time"`}, decls: `
$GEN{$NGen(a int)}{int}{
	g := func(d time.Duration) int { return GVDur(d) }
	$YIELD{g(2000000) + a}
	$YIELD{g(7000000)}
	$RET
}`, entries: []*Entry{drive("$NGen", "int", 1, nil)}},
	{name: "eta-arg-evaluated-late", tags: []string{"eta-shape"}, decls: byGen + `
func $NMk(k int) func(int) int {
	tr.Ev(1, k)
	return func(x int) int { return x + k }
}

func $NB(a int) int {
	g := func(x int) int { return $NMk(a)(x) }
	tr.Ev(2)
	return g(1) + g(2)
}`, entries: []*Entry{callEntry("$NB", 1, nil)}},
	{name: "closure-by-reference", decls: byGen + `
func $NB(a int) int {
	n := a
	inc := func() { n++ }
	get := func() int { return n }
	inc()
	inc()
	n *= 2
	return get()
}`, entries: []*Entry{callEntry("$NB", 1, nil)}},
	{name: "var-init-order", decls: byGen + `
var $NA = $NInitB() + 1

var $NBv = 5

func $NInitB() int { return $NBv * 2 }

func $NB(a int) int { return $NA + a }`, entries: []*Entry{callEntry("$NB", 1, nil)}},
	{name: "labels-goto-select-defer-outside-generators", decls: byGen + `
func $NB(a int) (res int) {
	defer func() { res += 1000 }()
	ch := make(chan int, 1)
	ch <- a
outer:
	for i := 0; i < 3; i++ {
		for j := 0; j < 3; j++ {
			if j == 2 {
				continue outer
			}
			if i == 2 {
				break outer
			}
			res += i*10 + j
		}
	}
	select {
	case v := <-ch:
		res += v
	default:
		res -= 1
	}
	i := 0
loop:
	if i < a {
		i++
		goto loop
	}
	switch {
	case i > 1:
		res += 7
		fallthrough
	case i > 100:
		res += 70
	}
	return res + i
}`, entries: []*Entry{callEntry("$NB", 1, nil)}},
	{name: "struct-tags-and-embedded", decls: byGen + `
type $NBase struct{ ID int ` + "`json:\"id\"`" + ` }

type $NDer struct {
	$NBase
	Name string ` + "`json:\"name,omitempty\"`" + `
}

func (b $NBase) Key() int { return b.ID * 2 }

func $NB(a int) int {
	d := $NDer{$NBase{a}, "x"}
	return d.Key() + len(d.Name)
}`, entries: []*Entry{callEntry("$NB", 1, nil)}},
}

// ---- C12: unsupported constructs injected into generator bodies -----------------------------------

type injection struct {
	name    string
	stmt    string // raw statement text (template); runs between two yields of the host generator
	decls   string // extra top-level declarations
	control bool   // negative control: the construct sits inside a nested non-generator closure and must be accepted
}

// host generator: Yield(a); <injected>; Yield(a+1)
var injections = []injection{
	{name: "goto-label", stmt: "i := 0\nagain:\n\ttr.Ev(1, i)\n\ti++\n\tif i < 2 {\n\t\tgoto again\n\t}"},
	{name: "goto-before-its-label", stmt: "if a >= 0 {\n\t\ttr.Ev(1)\n\t}\n\tgoto done\ndone:\n\ttr.Ev(2)"},
	{name: "labelled-continue", stmt: "outer:\n\tfor i := 0; i < 2; i++ {\n\t\tfor j := 0; j < 2; j++ {\n\t\t\tif j == 1 {\n\t\t\t\tcontinue outer\n\t\t\t}\n\t\t\t$YIELD{i*10 + j}\n\t\t}\n\t}"},
	{name: "labelled-break", stmt: "outer:\n\tfor i := 0; i < 2; i++ {\n\t\tfor j := 0; j < 2; j++ {\n\t\t\t$YIELD{i*10 + j}\n\t\t\tif j == 0 {\n\t\t\t\tbreak outer\n\t\t\t}\n\t\t}\n\t}"},
	{name: "labelled-break-trivial", stmt: "outer:\n\tfor i := 0; i < 2; i++ {\n\t\tfor j := 0; j < 2; j++ {\n\t\t\ttr.Ev(1, i, j)\n\t\t\tif j == 0 {\n\t\t\t\tbreak outer\n\t\t\t}\n\t\t}\n\t}"},
	{name: "select-yielding", stmt: "ch := tr.Chan(7)\n\tselect {\n\tcase v := <-ch:\n\t\t$YIELD{v}\n\tdefault:\n\t\t$YIELD{-1}\n\t}"},
	{name: "select-trivial", stmt: "ch := tr.Chan(7)\n\tselect {\n\tcase v := <-ch:\n\t\ttr.Ev(1, v)\n\tdefault:\n\t\ttr.Ev(2)\n\t}"},
	{name: "select-trivial-with-break-in-yielding-loop", stmt: "ch := tr.Chan(7, 0, 8)\n\tfor i := 0; i < 4; i++ {\n\t\tselect {\n\t\tcase v := <-ch:\n\t\t\tif v == 0 {\n\t\t\t\tbreak\n\t\t\t}\n\t\t\ttr.Ev(1, v)\n\t\tdefault:\n\t\t\ttr.Ev(2)\n\t\t}\n\t\t$YIELD{i}\n\t}"},
	{name: "select-trivial-with-break-top-level", stmt: "ch := tr.Chan(0)\n\tselect {\n\tcase v := <-ch:\n\t\tif v == 0 {\n\t\t\tbreak\n\t\t}\n\t\ttr.Ev(1, v)\n\t}"},
	{name: "defer", stmt: "defer tr.Ev(1, a)"},
	{name: "defer-in-block-after-yield", stmt: "{\n\t\t$YIELD{5}\n\t\tdefer tr.Ev(1, a)\n\t}"},
	{name: "fallthrough-yielding", stmt: "switch a % 2 {\n\tcase 0:\n\t\t$YIELD{10}\n\t\tfallthrough\n\tcase 1:\n\t\t$YIELD{11}\n\t}"},
	{name: "fallthrough-trivial-case-in-yielding-switch", stmt: "switch a % 2 {\n\tcase 0:\n\t\ttr.Ev(1)\n\t\tfallthrough\n\tcase 1:\n\t\t$YIELD{11}\n\t}"},
	{name: "range-over-func", stmt: "for v := range $NSeq(2) {\n\t\t$YIELD{v}\n\t}", decls: "func $NSeq(n int) func(func(int) bool) {\n\treturn func(y func(int) bool) {\n\t\tfor i := 0; i < n; i++ {\n\t\t\tif !y(i) {\n\t\t\t\treturn\n\t\t\t}\n\t\t}\n\t}\n}"},
	{name: "range-over-pointer-to-array", stmt: "arr := [3]int{4, 5, 6}\n\tfor i, v := range &arr {\n\t\t$YIELD{i*10 + v}\n\t}"},
	{name: "range-over-pointer-to-array-trivial", stmt: "arr := [3]int{4, 5, 6}\n\tfor i, v := range &arr {\n\t\ttr.Ev(1, i, v)\n\t}"},
	{name: "yield-in-if-init", stmt: "if $YIELD{77}; a > 0 {\n\t\ttr.Ev(1)\n\t}"},
	{name: "yield-in-if-init-with-yielding-body", stmt: "if $YIELD{77}; a > 0 {\n\t\t$YIELD{78}\n\t}"},
	{name: "yield-in-else-if-init", stmt: "if a > 5 {\n\t\ttr.Ev(1)\n\t} else if $YIELD{77}; a > 0 {\n\t\ttr.Ev(2)\n\t}"},
	{name: "yield-in-go-statement-closure-call", stmt: "func() {\n\t\ttr.Ev(1)\n\t}()"},
	{name: "yield-in-typeswitch-assign-rhs", stmt: "switch x := tr.Any(a).(type) {\n\tcase int:\n\t\t$YIELD{x}\n\tdefault:\n\t\t_ = x\n\t}"},
	// the API function used as a value: every yield made through the value is invisible to the compiler
	{name: "yield-function-value-called", stmt: "f := $YIELDFN{int}\n\tf(5)\n\ttr.Ev(1, a)"},
	{name: "yield-function-value-passed-as-argument", stmt: "func(f func(int), v int) {\n\t\tf(v)\n\t\tf(v + 1)\n\t}($YIELDFN{int}, 6)"},
	// defer inside statements that contain no yield and are therefore emitted unchanged (inside a generated thunk):
	// the deferred call must still run when the GENERATOR returns, not when the thunk does
	{name: "defer-in-yield-free-for-loop", stmt: "for i := 0; i < 2; i++ {\n\t\tdefer tr.Ev(1, i)\n\t}\n\ttr.Ev(2)"},
	{name: "defer-in-yield-free-range-over-slice", stmt: "for i := range []int{7, 8} {\n\t\tdefer tr.Ev(1, i)\n\t}\n\ttr.Ev(2)"},
	{name: "defer-in-yield-free-native-range", stmt: "parr := &[2]int{7, 8}\n\tfor i := range parr {\n\t\tdefer tr.Ev(1, i)\n\t}\n\ttr.Ev(2)"},
	{name: "defer-in-yield-free-switch-case", stmt: "switch {\n\tcase a >= 0:\n\t\tdefer tr.Ev(1, a)\n\t}\n\ttr.Ev(2)"},
	{name: "defer-in-yield-free-block", stmt: "{\n\t\tdefer tr.Ev(1, a)\n\t}\n\ttr.Ev(2)"},
	// the yield itself is the operand of defer: in the bare host it is the generator's ONLY yield
	{name: "defer-yield-call", stmt: "defer $YIELD{5}\n\ttr.Ev(1, a)"},
	{name: "defer-closure-yielding", stmt: "defer func() {\n\t\t$YIELD{6}\n\t}()\n\ttr.Ev(1, a)"},
	// a range the compiler leaves native (pointer to array), with its own break/continue, as a trivial statement
	{name: "range-over-pointer-to-array-trivial-break-continue", stmt: "arr := [4]int{4, 5, 6, 7}\n\tfor i, v := range &arr {\n\t\tif i == 1 {\n\t\t\tcontinue\n\t\t}\n\t\tif i == 3 {\n\t\t\tbreak\n\t\t}\n\t\ttr.Ev(1, i, v)\n\t}\n\ttr.Ev(2)"},
	// negative controls: inside a nested plain closure these constructs must be accepted and preserved
	{name: "control-select-with-break-in-closure", control: true, stmt: "tr.Ev(1, func() int {\n\t\tch := tr.Chan(7)\n\t\tn := 0\n\t\tselect {\n\t\tcase v := <-ch:\n\t\t\tif a > 0 {\n\t\t\t\tbreak\n\t\t\t}\n\t\t\tn = v\n\t\t}\n\t\treturn n + 1\n\t}())"},
	{name: "control-native-range-break-continue-in-closure", control: true, stmt: "func() {\n\t\tarr := [4]int{1, 2, 3, 4}\n\t\tfor i, v := range &arr {\n\t\t\tif i == 0 {\n\t\t\t\tcontinue\n\t\t\t}\n\t\t\tif v == 4 {\n\t\t\t\tbreak\n\t\t\t}\n\t\t\ttr.Ev(1, i, v)\n\t\t}\n\t}()"},
	{name: "control-native-range-break-in-closure-returning-any", control: true, stmt: "tr.Ev(1, func() any {\n\t\tn := 0\n\t\tarr := [4]int{1, 2, 3, 4}\n\t\tfor _, v := range &arr {\n\t\t\tif v == 3 {\n\t\t\t\tbreak\n\t\t\t}\n\t\t\tn += v\n\t\t}\n\t\treturn n\n\t}())"},
	{name: "control-labelled-range-plain-break-in-closure", control: true, stmt: "func() {\n\touter:\n\t\tfor i, v := range []int{5, 6, 7} {\n\t\t\tif i == 2 {\n\t\t\t\tbreak\n\t\t\t}\n\t\t\tfor j := 0; j < 2; j++ {\n\t\t\t\tif j == 1 {\n\t\t\t\t\tcontinue outer\n\t\t\t\t}\n\t\t\t\ttr.Ev(1, i, v, j)\n\t\t\t}\n\t\t}\n\t}()"},
	{name: "control-defer-in-closure", control: true, stmt: "func() {\n\t\tdefer tr.Ev(1, a)\n\t\ttr.Ev(2)\n\t}()"},
	{name: "control-labels-in-closure", control: true, stmt: "func() {\n\touter:\n\t\tfor i := 0; i < 2; i++ {\n\t\t\tfor j := 0; j < 2; j++ {\n\t\t\t\tif j == 1 {\n\t\t\t\t\tcontinue outer\n\t\t\t\t}\n\t\t\t\ttr.Ev(1, i, j)\n\t\t\t}\n\t\t}\n\t}()"},
	{name: "control-select-in-closure", control: true, stmt: "func() {\n\t\tch := tr.Chan(7)\n\t\tselect {\n\t\tcase v := <-ch:\n\t\t\ttr.Ev(1, v)\n\t\t}\n\t}()"},
	{name: "control-goto-in-closure", control: true, stmt: "func() {\n\t\ti := 0\n\tagain:\n\t\ti++\n\t\tif i < 2 {\n\t\t\tgoto again\n\t\t}\n\t\ttr.Ev(1, i)\n\t}()"},
	{name: "control-fallthrough-in-closure", control: true, stmt: "func() {\n\t\tswitch a % 2 {\n\t\tcase 0:\n\t\t\ttr.Ev(1)\n\t\t\tfallthrough\n\t\tcase 1:\n\t\t\ttr.Ev(2)\n\t\t}\n\t}()"},
}

// wrong result signatures (C12): a function that yields but does not return exactly one Iter
var badSignatures = []injection{
	{name: "two-results", decls: "$SONLY{func $NBad(a int) ($ITER{int}, error) {\n\t$YIELD{a}\n\treturn nil, nil\n}}"},
	{name: "non-iter-result", decls: "$SONLY{func $NBad(a int) []int {\n\t$YIELD{a}\n\treturn nil\n}}"},
	{name: "no-result", decls: "$SONLY{func $NBad(a int) {\n\t$YIELD{a}\n}}"},
	{name: "chan-result", decls: "$SONLY{func $NBad(a int) <-chan int {\n\t$YIELD{a}\n\treturn nil\n}}"},
}

// ---- C07 / C02: optimiser bait inside generators -----------------------------------------------------

var optimiserBait = []shape{
	{name: "pull-loop-iterator-reassigned", tags: []string{"eta-shape"}, decls: `
$GEN{$NCount(from int, n int)}{int}{
	for i := 0; i < n; i++ {
		tr.Ev(900, from, i)
		$YIELD{from + i}
	}
	$RET
}

$GEN{$NG(a int)}{int}{
	it := $NCount(a, 4)
	n := 0
	for it.MoveNext() {
		$YIELD{it.Current()}
		n++
		if n == 2 {
			it = $NCount(100+a, 2)
		}
	}
	$RET
}`, entries: []*Entry{drive("$NG", "int", 1, nil)}},
	{name: "loop-cond-mutable-func-var", tags: []string{"eta-shape"}, decls: `
$GEN{$NG(a int)}{int}{
	n := 0
	more := func() bool { tr.Ev(1, n); return n < 4 }
	for more() {
		n++
		$YIELD{n}
		if n == 2 {
			more = func() bool { tr.Ev(2, n); return n < 3 }
		}
	}
	$RET
}`, entries: []*Entry{drive("$NG", "int", 1, [][]int{{0}})}},
	{name: "loop-cond-method-value-receiver-reassigned", tags: []string{"eta-shape"}, decls: `
type $NLim struct{ max int }

func (l $NLim) more(n int) bool { return n < l.max }

$GEN{$NG(a int)}{int}{
	l := $NLim{max: 4}
	n := 0
	ok := func() bool { return l.more(n) }
	for ok() {
		n++
		$YIELD{n}
		l = $NLim{max: 2 + a%2}
	}
	$RET
}`, entries: []*Entry{drive("$NG", "int", 1, nil)}},
	{name: "loop-post-mutable-func-var", tags: []string{"eta-shape"}, decls: `
$GEN{$NG(a int)}{int}{
	n := 0
	step := func() { n++ }
	for ; n < 6; step() {
		$YIELD{n}
		if n == 2 {
			step = func() { n += 2 }
		}
	}
	$RET
}`, entries: []*Entry{drive("$NG", "int", 1, [][]int{{0}})}},
	// a range over a pre-filled channel receives exactly one value per iteration: what is still queued is observable
	// (len) between two yields, and a consumer that stops early leaves the rest in the channel
	{name: "range-over-channel-receives-on-demand", decls: `
$GEN{$NG(a int)}{int}{
	c := tr.Chan(3, 4, 5, 6)
	for v := range c {
		tr.Ev(1, v, len(c))
		$YIELD{v + a}
		tr.Ev(2, len(c))
	}
	d := make(chan int, 3)
	d <- 7
	d <- 8
	d <- 9
	n := 0
	for v := range d {
		n++
		$YIELD{v*10 + len(d)}
		if n == 2 {
			break
		}
	}
	tr.Ev(3, len(d))
	$YIELD{<-d}
	$RET
}`, entries: []*Entry{drive("$NG", "int", 1, nil)}},
	// a parameter / local that shadows a package-level constant of the same name is yielded as the first statement of
	// a thunk (head of a loop body, right after a yielding statement) and changes across suspensions
	{name: "yield-of-identifier-shadowing-a-constant", decls: `
const $NLimit, $NAcc = 100, 200

$GEN{$NG($NLimit int)}{int}{
	for $NLimit > 0 {
		$YIELD{$NLimit}
		$NLimit--
	}
	$NAcc := 1
	grow := func() { $NAcc *= 2 }
	for i := 0; i < 3; i++ {
		$YIELD{$NAcc}
		grow()
	}
	if $NLimit == 0 {
		$YIELD{-1}
		$NAcc = 42
	}
	$YIELD{$NAcc}
	$RET
}`, entries: []*Entry{drive("$NG", "int", 1, nil)}},
	{name: "yield-literal-variable-constant", decls: `
const $NK = 7

$GEN{$NG(a int)}{int}{
	x := 1
	$YIELD{1}
	x = 5
	$YIELD{x}
	x = 9
	$YIELD{-1}
	$YIELD{$NK}
	$YIELD{1 + 2}
	for i := 0; i < 2; i++ {
		$YIELD{2}
		x += i
	}
	$YIELD{x}
	$RET
}`, entries: []*Entry{drive("$NG", "int", 1, [][]int{{0}})}},
	{name: "yield-string-literal-then-variable", decls: `
$GEN{$NG(a int)}{string}{
	s := "a"
	for i := 0; i < 3; i++ {
		$YIELD{"lit"}
		s += "b"
		$YIELD{s}
	}
	$RET
}`, entries: []*Entry{drive("$NG", "string", 1, [][]int{{0}})}},
	{name: "thunk-is-a-single-call", tags: []string{"eta-shape"}, decls: `
$GEN{$NSub(a int)}{int}{
	tr.Ev(900, a)
	$YIELD{a}
	$RET
}

$GEN{$NG(a int)}{int}{
	mk := $NSub
	if a > 0 {
		$YFROM{mk(a)}
	}
	mk = func(x int) $ITER{int} { return $NSub(x * 10) }
	if a > 1 {
		$YFROM{mk(a)}
	}
	$YIELD{0}
	$RET
}`, entries: []*Entry{drive("$NG", "int", 1, nil)}},
	{name: "user-closure-returning-seq-shaped-call", tags: []string{"eta-shape"}, decls: `
$GEN{$NG(a int)}{int}{
	get := func() int { tr.Ev(1, a); return a }
	wrap := func() int { return get() }
	$YIELD{wrap()}
	get = func() int { tr.Ev(2, a); return a * 100 }
	$YIELD{wrap()}
	$RET
}`, entries: []*Entry{drive("$NG", "int", 1, nil)}},
}

// ---- C18: panics raised by the evaluation of a returned expression -----------------------------------

var panicShapes = []shape{
	{name: "return-indexed-iterator-out-of-range", tags: []string{"panic"}, decls: `
$GEN{$NOne(a int)}{int}{
	$YIELD{a}
	$RET
}

$GEN{$NG(a int)}{int}{
	alts := []$ITER{int}{$NOne(1)}
	tr.Ev(1, a, len(alts))
	$YIELD{a}
	if a > 1 {
		tr.Ev(2)
		$SONLY{return alts[a]}$RONLY{_ = alts[a]; return}
	}
	$YIELD{a + 10}
	$RET
}

$GEN{$NOuter(a int)}{int}{
	$YIELD{100}
	$YFROM{$NG(a)}
	$YIELD{200}
	$RET
}`, entries: []*Entry{drive("$NG", "int", 1, nil), drive("$NOuter", "int", 1, nil)}},
	{name: "return-field-of-nil-pointer", tags: []string{"panic"}, decls: `
type $NH struct{ Rest $ITER{int} }

$GEN{$NG(a int)}{int}{
	var h *$NH
	if a == 0 {
		h = &$NH{}
	}
	tr.Ev(3, h == nil)
	$YIELD{7}
	switch {
	case a < 3:
		$YIELD{8}
		$SONLY{return h.Rest}$RONLY{_ = h.Rest; return}
	}
	$YIELD{9}
	$RET
}`, entries: []*Entry{drive("$NG", "int", 1, nil)}},
	{name: "for-post-calls-nil-func-variable", tags: []string{"panic"}, decls: `
$GEN{$NG(a int)}{int}{
	var step func()
	n := 0
	if a > 1 {
		step = func() { n++ }
	}
	for i := 0; i < 3; step() {
		tr.Ev(1, i, n)
		$YIELD{i*10 + n}
		i++
	}
	$YIELD{99}
	$RET
}`, entries: []*Entry{drive("$NG", "int", 1, nil)}},
	{name: "for-post-calls-method-of-nil-interface", tags: []string{"panic"}, decls: `
type $NS interface{ Step() }

type $NImpl struct{ n *int }

func (s $NImpl) Step() { *s.n++ }

$GEN{$NG(a int)}{int}{
	var s $NS
	cnt := 0
	if a%2 == 1 {
		s = $NImpl{&cnt}
	}
	for i := 0; i < 3; s.Step() {
		tr.Ev(1, i, cnt)
		$YIELD{i*10 + cnt}
		i++
	}
	$RET
}`, entries: []*Entry{drive("$NG", "int", 1, nil)}},
	{name: "loop-cond-calls-nil-func-variable", tags: []string{"panic"}, decls: `
$GEN{$NG(a int)}{int}{
	var more func() bool
	n := 0
	if a > 0 {
		more = func() bool { n++; return n < 3 }
	}
	$YIELD{7}
	for more() {
		$YIELD{n}
		if n == a {
			more = nil
		}
	}
	$RET
}`, entries: []*Entry{drive("$NG", "int", 1, nil)}},
	{name: "return-call-that-panics", tags: []string{"panic"}, decls: `
func $NBoom(a int) $ITER{int} {
	if a > 0 {
		panic(tr.Str(a))
	}
	return nil
}

$GEN{$NG(a int)}{int}{
	$YIELD{1}
	if a != 2 {
		$SONLY{return $NBoom(a)}$RONLY{_ = $NBoom(a); return}
	}
	$YIELD{2}
	$RET
}`, entries: []*Entry{drive("$NG", "int", 1, nil)}},
}

// ---- C13 (second half): ordinary closures INSIDE generator bodies keep their meaning ------------------

var closureInGeneratorShapes = []shape{
	{name: "per-iteration-loop-variable-in-nested-closure", decls: `
$GEN{$NG(a int)}{int}{
	collect := func(n int) []func() int {
		var fs []func() int
		for i := 0; i < n; i++ {
			fs = append(fs, func() int { return i*10 + a })
		}
		return fs
	}
	for _, f := range collect(3) {
		$YIELD{f()}
	}
	$RET
}`, entries: []*Entry{drive("$NG", "int", 1, nil)}},
	{name: "pointer-to-loop-variable-in-nested-closure", decls: `
$GEN{$NG(a int)}{int}{
	ptrs := func() (ps []*int) {
		for i := 0; i < 3; i++ {
			ps = append(ps, &i)
		}
		return
	}()
	for _, p := range ptrs {
		$YIELD{*p + a}
	}
	$RET
}`, entries: []*Entry{drive("$NG", "int", 1, nil)}},
	{name: "switch-and-if-init-in-nested-closure", decls: `
$GEN{$NG(a int)}{int}{
	classify := func(x int) int {
		switch y := x * 2; {
		case y > 4:
			return y
		}
		if z := x + 1; z > 1 {
			return -z
		}
		return 0
	}
	for i := 0; i < 4; i++ {
		$YIELD{classify(i + a)}
	}
	$RET
}`, entries: []*Entry{drive("$NG", "int", 1, nil)}},
	{name: "return-values-and-defer-in-nested-closure", decls: `
$GEN{$NG(a int)}{int}{
	f := func(x int) (r int, err error) {
		defer func() { r += 1000 }()
		if x > 1 {
			return x, nil
		}
		return -x, tr.Err{N: x}
	}
	for i := 0; i < 3; i++ {
		v, err := f(i + a)
		tr.Ev(1, v, err)
		$YIELD{v}
	}
	$RET
}`, entries: []*Entry{drive("$NG", "int", 1, nil)}},
	{name: "range-loops-and-labels-in-nested-closure", decls: `
$GEN{$NG(a int)}{int}{
	sum := func(xs []int, s string) (t int) {
	outer:
		for i, x := range xs {
			for j, r := range s {
				if r == 'b' {
					continue outer
				}
				t += i*x + j
			}
		}
		return
	}
	$YIELD{sum([]int{1, 2, a}, "abc")}
	$YIELD{sum(nil, "")}
	$RET
}`, entries: []*Entry{drive("$NG", "int", 1, nil)}},
	// ranges the compiler leaves native (pointer to array, labelled, type-parameter operand) inside plain closures, each
	// with break/continue that belong to the range itself
	{name: "native-ranges-with-own-break-continue-in-nested-closure", decls: `
$GEN{$NG(a int)}{int}{
	firstBig := func(arr *[5]int) any {
		idx := -1
		for i, v := range arr {
			if v < 3 {
				continue
			}
			idx = i
			break
		}
		return idx
	}
	count := func(xs []int) (n int) {
	scan:
		for _, x := range xs {
			if x == 0 {
				continue
			}
			if x < 0 {
				break
			}
			for k := 0; k < x; k++ {
				if k == 2 {
					continue scan
				}
				n++
			}
		}
		return
	}
	$YIELD{firstBig(&[5]int{1, 2, a + 2, 7, 9}).(int)}
	$YIELD{count([]int{1, 0, 3, a, -1, 5})}
	$RET
}`, entries: []*Entry{drive("$NG", "int", 1, nil)}},
	{name: "type-parameter-range-with-break-in-generic-generator-closure", decls: `
$GEN{$NG[S ~[]int](xs S)}{int}{
	upTo := func(limit int) (t int) {
		for _, x := range xs {
			if x > limit {
				break
			}
			if x%2 == 0 {
				continue
			}
			t += x
		}
		return
	}
	$YIELD{upTo(3)}
	$YIELD{upTo(100)}
	$RET
}

$GEN{$NH(a int)}{int}{
	$YFROM{$NG([]int{1, 2, 3, a + 4, 5, 200, 7})}
	$RET
}`, entries: []*Entry{drive("$NH", "int", 1, nil)}},
}
