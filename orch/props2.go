package main

import (
	"fmt"
	"strings"
	"time"
)

// ---- C13 ------------------------------------------------------------------------------------------

func bystanderProfile() *profile {
	return &profile{
		name: "bystanders", maxDepth: 3, maxStmts: 12,
		w: map[string]int{
			"ev": 8, "decl": 8, "assign": 8, "incdec": 3, "block": 3, "if": 6, "switch": 4, "tswitch": 2,
			"for": 5, "range": 4, "break": 2, "continue": 2, "return": 2, "closure": 14, "callstmt": 8,
		},
		elems: []string{"int"}, nGens: [2]int{1, 1}, plainFns: 3, globals: true,
		exclude: knownExclusions(), fuel: 300, vlProb: 10, etaBait: true,
	}
}

func init() {
	checks["C13"] = &checkT{run: func(rs *runState) {
		rs.rule("bystander declarations co-located with generators: hand-written shapes (closures of the eta-reducible form over a mutable function variable, a local function variable, " +
			"a method value on a re-assigned receiver, a nil interface receiver, a builtin, a conversion, a generic function, a variadic callee with xs..., a call result; constants with iota, " +
			"variable initialisers, methods, labels/goto/select/defer/fallthrough outside generators, struct tags) x 6 import styles, plus random plain functions with many closures; " +
			"oracle: the SOURCE package itself (it is ordinary Go; only generators are stubs) - result and effect trace of F built from the source == F built from the generated package; " +
			"non-trivial = the program contains a closure or an eta-reducible shape; distinct by hash(program)+input")
		var fixed []*Program
		for i, sh := range bystanderShapes {
			fixed = append(fixed, mkShapeProgram("Y"+itoa(1000+i), sh))
		}
		spec := &diffSpec{
			profiles: []*profile{bystanderProfile()}, batchSize: 30, batches: rs.vol(15, 300),
			fixed: fixed, fixedStyles: true,
			opts: batchOpts{variants: []string{"o", "s"}, tinyTest: true},
			onlyCalls: true,
			nontrivial: func(p *Program, r *Record) bool {
				return p.hasTag("eta-shape") || p.hasTag("closure") || strings.HasPrefix(p.Profile, "shape:")
			},
		}
		rs.runDiff(spec)
		// second half of the statement: ordinary closures INSIDE generator bodies (oracle: the reference rendering,
		// where the closure text is compiled natively by Go)
		var inGen []*Program
		for i, sh := range closureInGeneratorShapes {
			inGen = append(inGen, mkShapeProgram("Z"+itoa(100+i), sh))
		}
		sp := scopingProfile()
		sp.w["closure"] = 16
		sp.w["callstmt"] = 10
		rs.runDiff(&diffSpec{
			profiles: []*profile{sp}, batchSize: 30, batches: rs.vol(6, 150),
			fixed: inGen,
			nontrivial: func(p *Program, r *Record) bool {
				return p.hasTag("closure") || strings.HasPrefix(p.Profile, "shape:")
			},
		})
	}}

	// ---- C07 --------------------------------------------------------------------------------------
	checks["C07"] = &checkT{needU: true, run: func(rs *runState) {
		rs.rule("programs of the control-flow, effect, scoping and delegation profiles plus optimiser bait (eta-reducible closures over mutable callees, method values, builtins, conversions, " +
			"generic/variadic callees, inside and outside generators; literal vs non-literal yields); every program is compiled twice: unoptimised stage (hook VerifRewriteOnly) and full pipeline; " +
			"oracle: (1) interleaved trace of the unoptimised code == trace of the optimised code for every input and script (no reference involved), " +
			"(2) if the unoptimised stage builds, the optimised output builds (import clean-up); the reference is run as a cross-check only; " +
			"non-trivial = the optimiser changed the text of the program's functions and the trace has >= 1 yield; distinct by hash(program)+input+script")
		var fixed []*Program
		for i, sh := range bystanderShapes {
			if !sh.hasTag("eta-shape") {
				continue
			}
			fixed = append(fixed, mkShapeProgram("Y"+itoa(1000+i), sh))
		}
		for i, sh := range optimiserBait {
			fixed = append(fixed, mkShapeProgram("O"+itoa(100+i), sh))
		}
		// loop values the optimiser turns into re-run values (unoptimised: rebuilt per entry)
		fixed = append(fixed, loopRerunTable()...)
		fixed = append(fixed, iteratorValuePrograms()...)
		fixed = append(fixed, yieldOperandTable()...)
		spec := &diffSpec{
			profiles: []*profile{controlFlowProfile(), effectProfile(), scopingProfile(), delegationProfile(), bystanderProfile()}, batchSize: 30, batches: rs.vol(20, 500),
			fixed: fixed,
			opts:  batchOpts{needU: true, tinyTest: true},
			noTraceOwner: true,
			// only failures the optimiser is responsible for (onCompileFail below) are C07's
			casualtiesOK: true,
			perRecord: func(rs *runState, p *Program, r *Record) *violationT {
				if r.UO != "" {
					return &violationT{Kind: "uo-trace", Signature: "uo:" + uoSignature(r.UO), What: fmt.Sprintf("%s %s input %v script %s: unoptimised and optimised code behave differently: %s", r.Prog, r.Entry, r.Input, r.Script, r.UO), NeedU: true}
				}
				return nil
			},
			onCompileFail: func(rs *runState, p *Program, f *stageFailure, b *batch) bool {
				if f.Stage == "compile" {
					// the full pipeline failed: if the rewrite stage alone succeeds, the optimise stage is the culprit
					r := runCmd(b.dir, 5*time.Minute, nil, rs.tools.cocompileu, "s", "u")
					if r.code == 0 {
						rs.eval(progHash(p)+"compile", true, p.Tags...)
						rs.addViolation(&violationT{Kind: "compile", Signature: "opt-compile:" + normDiag(f.Diag), What: fmt.Sprintf("%s: the rewrite stage succeeds but the full pipeline (optimise stage) fails: %s", p.Name, normDiag(f.Diag)),
							Program: p, Stage: f, SourceS: b.srcS, Style: b.opts.style, NeedU: true})
						return true
					}
					return false
				}
				if f.Stage != "build-o" {
					return false
				}
				// does the unoptimised stage build? then the optimiser broke the build
				r := runCmd(b.dir, 5*time.Minute, nil, "go", "build", "-gcflags=-e", "./u")
				if r.code == 0 {
					rs.eval(progHash(p)+"build", true, p.Tags...)
					rs.addViolation(&violationT{Kind: "build", Signature: "opt-build:" + buildClass(normDiag(f.Diag)), What: fmt.Sprintf("%s: the unoptimised stage builds but the optimised output does not: %s", p.Name, normDiag(f.Diag)),
						Program: p, Stage: f, SourceS: b.srcS, Style: b.opts.style, NeedU: true})
					return true
				}
				return false
			},
			nontrivial: func(p *Program, r *Record) bool { return r.Yields >= 1 || p.hasTag("eta-shape") },
		}
		rs.runDiff(spec)
	}}
}

func (s shape) hasTag(t string) bool {
	for _, x := range s.tags {
		if x == t {
			return true
		}
	}
	return false
}

func uoSignature(uo string) string {
	if m := reDiffUO.FindStringSubmatch(uo); m != nil {
		return "u=" + lineKind(unq(m[1])) + " o=" + lineKind(unq(m[2]))
	}
	return normDigits(uo)
}

// ---- C12 ------------------------------------------------------------------------------------------

// injectInto inserts the raw construct at a random statement position of the first generator.
func injectInto(t *rapidT, p *Program, inj injection) {
	d := p.Decls[0]
	lists := listRefs(d)
	// only lists that belong to the generator itself (not nested closures / generator literals)
	var own []*[]*Stmt
	var walk func(l *[]*Stmt)
	walk = func(l *[]*Stmt) {
		own = append(own, l)
		for _, s := range *l {
			if s.K == "closure" {
				continue
			}
			if s.Body != nil {
				walk(&s.Body)
			}
			if s.Else != nil {
				walk(&s.Else)
			}
			for _, c := range s.Cases {
				walk(&c.Body)
			}
			for e := s.ElseIf; e != nil; e = e.ElseIf {
				walk(&e.Body)
				if e.Else != nil {
					walk(&e.Else)
				}
			}
		}
	}
	walk(&d.Body)
	_ = lists
	li := rapidInt(t, 0, len(own)-1, "injlist")
	l := own[li]
	// never after a terminal statement (dead code is dropped by the compiler)
	max := len(*l)
	if max > 0 {
		last := (*l)[max-1]
		if last.K == "break" || last.K == "continue" || last.K == "return" || last.K == "panic" {
			max--
		}
	}
	pos := rapidInt(t, 0, max, "injpos")
	st := &Stmt{K: "raw", Raw: strings.ReplaceAll(inj.stmt, "$N", p.Name)}
	nl := append(append(append([]*Stmt{}, (*l)[:pos]...), st), (*l)[pos:]...)
	*l = nl
	if inj.decls != "" {
		p.Decls = append(p.Decls, &Decl{Kind: "raw", Raw: strings.ReplaceAll(inj.decls, "$N", p.Name)})
	}
	p.tag("inject:" + inj.name)
	if inj.control {
		p.tag("negative-control")
	}
}

func init() {
	checks["C12"] = &checkT{run: func(rs *runState) {
		rs.rule("a supported program (control-flow profile, or a fixed host `Yield(a); <X>; Yield(a+1)`) with ONE unsupported construct injected at a random statement position of the generator: " +
			"goto, labelled break/continue, select, defer, fallthrough out of a yielding case, range over func / pointer-to-array, yield in an if/else-if initialiser; wrong result signatures; " +
			"negative controls (the construct inside a nested plain closure must be accepted). Oracle, three-valued: rejected with a diagnostic -> ok; accepted but the output does not build -> loud, ok; " +
			"accepted and builds -> the interleaved trace must equal the reference (which executes the construct natively), otherwise 'silently mistranslated'. " +
			"non-trivial = every injected program (rejected or compared); distinct by hash(program)")
		var all []injection
		all = append(all, injections...)
		n := 0
		spec := &diffSpec{
			profiles: []*profile{c12HostProfile()}, batchSize: 6, batches: rs.vol(30, 500),
			mutate: func(t *rapidT, p *Program) {
				inj := all[rapidInt(t, 0, len(all)-1, "inj")]
				injectInto(t, p, inj)
			},
			onCompileFail: func(rs *runState, p *Program, f *stageFailure, b *batch) bool {
				control := p.hasTag("negative-control")
				if control {
					rs.eval(progHash(p), true, p.Tags...)
					rs.addViolation(&violationT{Kind: strings.SplitN(f.Stage, "-", 2)[0], Signature: f.Stage + ":" + normDiag(f.Diag), What: fmt.Sprintf("%s: negative control (construct inside a nested plain closure) was not accepted: %s: %s", p.Name, f.Stage, normDiag(f.Diag)),
						Program: p, Stage: f, SourceS: b.srcS, Style: b.opts.style})
					return true
				}
				if f.Stage == "compile" {
					if strings.TrimSpace(f.Diag) == "" {
						rs.addViolation(&violationT{Kind: "compile", Signature: "compile:empty-diagnostic", What: p.Name + ": rejected without a diagnostic", Program: p, Stage: f, SourceS: b.srcS, Style: b.opts.style})
						return true
					}
					rs.eval(progHash(p), true, append([]string{"outcome:rejected"}, p.Tags...)...)
					return true
				}
				if f.Stage == "build-o" {
					rs.eval(progHash(p), true, append([]string{"outcome:accepted-output-does-not-build"}, p.Tags...)...)
					return true
				}
				return false
			},
			nontrivial: func(p *Program, r *Record) bool { return true },
		}
		// fixed hosts: every injection in the canonical host, plus wrong signatures
		for _, inj := range all {
			n++
			name := "J" + itoa(1000+n)
			p := &Program{Name: name, Profile: "c12-fixed-host", Tags: []string{"inject:" + inj.name}}
			if inj.control {
				p.tag("negative-control")
			}
			body := []*Stmt{evS(1, v("a")), yS(v("a")), {K: "raw", Raw: strings.ReplaceAll(inj.stmt, "$N", name)}, yS(bin("+", v("a"), lit(1)))}
			p.Decls = []*Decl{{Kind: "gen", Name: name + "G", Params: []Param{{"a", "int"}}, Elem: "int", Body: body}}
			if inj.decls != "" {
				p.Decls = append(p.Decls, &Decl{Kind: "raw", Raw: strings.ReplaceAll(inj.decls, "$N", name)})
			}
			p.Entries = []*Entry{{Name: name + "G", Kind: "drive", Call: "$P" + name + "G($0)", Elem: "int", Inputs: allInputs(1, 0, 3), Scripts: []string{"std"}}}
			spec.fixed = append(spec.fixed, p)
		}
		// bare host: the injected construct is the whole generator body, so every yield of the function sits inside it
		// (a function whose yields are all missed by the compiler's generator discovery is emitted unchanged)
		nbare := 0
		for _, inj := range all {
			if inj.control || !(strings.Contains(inj.stmt, "$YIELD") || strings.Contains(inj.stmt, "$YFROM")) { // ($YIELDFN counts)
				continue
			}
			n++
			nbare++
			name := "J" + itoa(1000+n)
			p := &Program{Name: name, Profile: "c12-bare-host", Tags: []string{"inject:" + inj.name, "bare-host"}}
			body := []*Stmt{{K: "raw", Raw: strings.ReplaceAll(inj.stmt, "$N", name)}}
			p.Decls = []*Decl{{Kind: "gen", Name: name + "G", Params: []Param{{"a", "int"}}, Elem: "int", Body: body}}
			if inj.decls != "" {
				p.Decls = append(p.Decls, &Decl{Kind: "raw", Raw: strings.ReplaceAll(inj.decls, "$N", name)})
			}
			p.Entries = []*Entry{{Name: name + "G", Kind: "drive", Call: "$P" + name + "G($0)", Elem: "int", Inputs: allInputs(1, 0, 3), Scripts: []string{"std"}}}
			spec.fixed = append(spec.fixed, p)
		}
		rs.exh = append(rs.exh, itoa(nbare)+" yielding injections as the whole body of the generator (bare host)")
		for _, bs := range badSignatures {
			n++
			name := "J" + itoa(1000+n)
			p := &Program{Name: name, Profile: "c12-bad-signature", Tags: []string{"badsig:" + bs.name, "badsig"}}
			p.Decls = []*Decl{{Kind: "gen", Name: name + "G", Params: []Param{{"a", "int"}}, Elem: "int", Body: []*Stmt{yS(v("a"))}},
				{Kind: "raw", Raw: strings.ReplaceAll(bs.decls, "$N", name)}}
			p.Entries = []*Entry{{Name: name + "G", Kind: "drive", Call: "$P" + name + "G($0)", Elem: "int", Inputs: [][]int{{1}}, Scripts: []string{"std"}}}
			spec.fixed = append(spec.fixed, p)
		}
		spec.perBatch = func(rs *runState, b *batch, res *batchResult) {
			if res.fail != nil {
				return
			}
			for _, p := range b.progs {
				if p.hasTag("badsig") {
					rs.addViolation(&violationT{Kind: "accepted", Signature: "accepted-bad-signature", What: p.Name + ": a yielding function with a wrong result signature was accepted and the output builds (its yields are dropped)",
						Program: p, SourceS: progSource(b.srcS, p.Name), Output: progSource(res.outO, p.Name), Style: b.opts.style})
				}
			}
		}
		rs.exh = append(rs.exh, itoa(len(all))+" injections and "+itoa(len(badSignatures))+" wrong signatures in the canonical host `Yield(a); <X>; Yield(a+1)`")
		rs.runDiff(spec)
	}}
}

func c12HostProfile() *profile {
	p := controlFlowProfile()
	p.name = "c12-host"
	p.maxStmts = 8
	p.maxDepth = 3
	p.w["genlit"] = 0
	p.elems = []string{"int"} // the injected constructs yield ints
	p.keepParams = true
	return p
}
