package main

import (
	"fmt"
	"strings"
)

// Loop values that are run more than once.
//
// The rewriter wraps every loop in a thunk (`Delay(func() Seq { init; return For(...) })`), so a For value is
// normally built afresh each time control reaches the loop. The optimiser elides the thunk when the loop has no
// initialiser of its own and is the first statement of the enclosing loop body: the enclosing loop then holds ONE
// inner For/While/Loop value and runs it once per outer iteration. Anything the runtime keeps per constructed
// value instead of per run (first-iteration flag, trampoline flags, a cached loop closure, a stale continuation)
// only shows in these shapes, and only in the optimised code. Generated loop bodies always start with an event
// (fuel accounting), so the random profiles never produce them; this table does, systematically:
//
//	outer loop form x inner loop form x inner body x statements after the inner loop
//
// Counters live outside both loops and are reset in the outer post statement / after the inner loop, never before
// it (the inner loop has to stay the first statement of the outer body).
func loopRerunTable() []*Program {
	type outer struct{ name, head, after string }
	type inner struct{ name, head, pre string }
	type body struct{ name, text string }
	outers := []outer{
		{"cond", "for i < 3", "i++\n\t\tj = 0"},
		{"post-resets", "for ; i < 3; i, j = i+1, 0", ""},
		{"infinite", "for", "i++\n\t\tj = 0\n\t\tif i >= 3 {\n\t\t\tbreak\n\t\t}"},
	}
	inners := []inner{
		{"cond", "for j < 2+a%2", "j++"},
		{"cond-post", "for ; j < 2+a%2; j++", ""},
		{"infinite", "for", "if j >= 2+a%2 {\n\t\t\t\tbreak\n\t\t\t}\n\t\t\tj++"},
	}
	bodies := []body{
		{"yield", "tr.Ev(1, i, j)\n\t\t\t$YIELD{i*10 + j}"},
		{"filter", "n++\n\t\t\tif (i+j)%2 == 0 {\n\t\t\t\t$YIELD{i*10 + j}\n\t\t\t}"},
		{"break-before-yield", "if i == 1 {\n\t\t\t\tbreak\n\t\t\t}\n\t\t\t$YIELD{i*10 + j}"},
		{"yield-then-break", "$YIELD{i*10 + j}\n\t\t\tif i == 0 {\n\t\t\t\tbreak\n\t\t\t}\n\t\t\ttr.Ev(2, j)"},
		{"continue", "if j == 1 && i != 1 {\n\t\t\t\tcontinue\n\t\t\t}\n\t\t\t$YIELD{i*10 + j}"},
		{"no-yield", "n += j"},
		// run 1 yields, run 2 is left by break before any yield of that outer iteration, run 3 only makes
		// non-yielding iterations and ends through its condition; then the generator yields once more
		{"yield-break-silent", "if i == 1 {\n\t\t\t\tbreak\n\t\t\t}\n\t\t\tif i == 0 {\n\t\t\t\t$YIELD{j}\n\t\t\t}\n\t\t\tn++"},
		// run 1: the first iteration yields, the SECOND one (started by the loop driver after the resumption) breaks before
		// yielding, so the code after the loop and the next outer iteration run nested inside that driver; run 2 only makes
		// non-yielding iterations and ends through its condition; whatever suspends next unwinds into run 1's driver
		{"yield-then-next-iteration-breaks-then-silent-run", "if n == 1 && i == 0 {\n\t\t\t\tbreak\n\t\t\t}\n\t\t\tif i == 0 {\n\t\t\t\t$YIELD{j}\n\t\t\t}\n\t\t\tn++"},
		{"return-inside", "if i == 2 && j == 1 {\n\t\t\t\t$RET\n\t\t\t}\n\t\t\t$YIELD{i*10 + j}"},
	}
	afters := []struct{ name, text string }{
		{"nothing", ""},
		{"yield-after-inner", "$YIELD{500 + i}"},
		{"event-after-inner", "tr.Ev(3, i, n)"},
	}
	var out []*Program
	k := 0
	for _, o := range outers {
		for _, in := range inners {
			for _, b := range bodies {
				for _, af := range afters {
					k++
					name := fmt.Sprintf("L%04d", k)
					var sb strings.Builder
					sb.WriteString("$GEN{" + name + "G(a int)}{int}{\n\ti, j, n := 0, 0, 0\n\t_, _, _ = i, j, n\n")
					sb.WriteString("\t" + o.head + " {\n")
					sb.WriteString("\t\t" + in.head + " {\n")
					if in.pre != "" {
						sb.WriteString("\t\t\t" + in.pre + "\n")
					}
					sb.WriteString("\t\t\t" + b.text + "\n\t\t}\n")
					if af.text != "" {
						sb.WriteString("\t\t" + af.text + "\n")
					}
					if o.after != "" {
						sb.WriteString("\t\t" + o.after + "\n")
					}
					sb.WriteString("\t}\n\t$YIELD{1000 + n}\n\t$RET\n}")
					p := &Program{Name: name, Profile: "loop-rerun-table",
						Tags: []string{"loop-value-rerun", "outer:" + o.name, "inner:" + in.name, "body:" + b.name, "after:" + af.name}}
					p.Decls = []*Decl{{Kind: "raw", Raw: sb.String()}}
					p.Entries = []*Entry{drive(name+"G", "int", 1, [][]int{{0}, {1}})}
					out = append(out, p)
				}
			}
		}
	}
	// three levels: the middle loop value is re-run by the outer loop and itself re-runs the innermost one
	for v, mid := range []string{"for j < 2", "for ; j < 2; j++"} {
		k++
		name := fmt.Sprintf("L%04d", k)
		pre := "j++\n\t\t\t"
		if v == 1 {
			pre = ""
		}
		raw := "$GEN{" + name + "G(a int)}{int}{\n\ti, j, m, n := 0, 0, 0, 0\n\t_, _, _, _ = i, j, m, n\n" +
			"\tfor ; i < 2+a%2; i, j = i+1, 0 {\n\t\t" + mid + " {\n\t\t\tfor m < 2 {\n\t\t\t\tm++\n\t\t\t\tn++\n\t\t\t\tif (i+j+m)%2 == 0 {\n\t\t\t\t\t$YIELD{i*100 + j*10 + m}\n\t\t\t\t}\n\t\t\t}\n\t\t\t" + pre + "m = 0\n\t\t}\n\t}\n\t$YIELD{1000 + n}\n\t$RET\n}"
		p := &Program{Name: name, Profile: "loop-rerun-table", Tags: []string{"loop-value-rerun", "three-levels"}}
		p.Decls = []*Decl{{Kind: "raw", Raw: raw}}
		p.Entries = []*Entry{drive(name+"G", "int", 1, [][]int{{0}, {1}})}
		out = append(out, p)
	}
	return out
}

// loopFormTable: every combination of (init, condition, post) present/absent in a for header, with a yielding body,
// a yielding post or a yielding init, and break/return as the way out when there is no condition.
func loopFormTable() []*Program {
	var out []*Program
	k := 0
	for mask := 0; mask < 8; mask++ {
		hasInit, hasCond, hasPost := mask&1 != 0, mask&2 != 0, mask&4 != 0
		for _, yieldIn := range []string{"body", "post", "init", "body-and-post", "body/assign-init", "post/assign-init"} {
			// "/assign-init": the initialiser is a plain assignment `i = 0` to a variable that holds a stale value
			assignInit := strings.HasSuffix(yieldIn, "/assign-init")
			yieldTag := yieldIn
			yieldIn = strings.TrimSuffix(yieldIn, "/assign-init")
			if assignInit && !hasInit {
				continue
			}
			if (yieldIn == "post" || yieldIn == "body-and-post") && !hasPost || yieldIn == "init" && !hasInit {
				continue
			}
			for _, exit := range []string{"break", "return", "cond"} {
				if (exit == "cond") != hasCond {
					continue
				}
				k++
				name := fmt.Sprintf("F%04d", k)
				var sb strings.Builder
				sb.WriteString("$GEN{" + name + "G(a int)}{int}{\n\tn := 0\n\t_ = n\n")
				init, cond, post := "", "", ""
				pre := ""
				if hasInit {
					init = "i := 0"
					if assignInit {
						pre = "\ti := 7\n"
						init = "i = 0"
					}
					if yieldIn == "init" {
						pre = "\ti := 0\n"
						init = "$YIELD{70 + a}"
					}
				} else {
					pre = "\ti := 0\n"
				}
				if hasCond {
					cond = "i < 2+a%2"
				}
				inBody := "tr.Ev(1, i)\n"
				if hasPost {
					post = "i++"
					if yieldIn == "post" || yieldIn == "body-and-post" {
						post = "$YIELD{100 + i}"
						inBody += "\t\ti++\n"
					}
				} else {
					inBody += "\t\ti++\n"
				}
				head := "for"
				if hasInit || hasPost {
					head = "for " + init + "; " + cond + "; " + post
				} else if hasCond {
					head = "for " + cond
				}
				sb.WriteString(pre + "\t" + head + " {\n\t\t" + inBody)
				if !hasCond {
					ex := "break"
					if exit == "return" {
						ex = "$RET"
					}
					sb.WriteString("\t\tif i > 2+a%2 {\n\t\t\t" + ex + "\n\t\t}\n")
				}
				if yieldIn == "body" || yieldIn == "body-and-post" {
					sb.WriteString("\t\t$YIELD{i}\n")
				} else {
					sb.WriteString("\t\tn += i\n")
				}
				sb.WriteString("\t}\n\t$YIELD{1000 + n}\n\t$RET\n}")
				p := &Program{Name: name, Profile: "loop-form-table", Tags: []string{"loop-form", fmt.Sprintf("init:%v", hasInit), fmt.Sprintf("cond:%v", hasCond), fmt.Sprintf("post:%v", hasPost), "yield-in:" + yieldTag, "exit:" + exit}}
				p.Decls = []*Decl{{Kind: "raw", Raw: sb.String()}}
				p.Entries = []*Entry{drive(name+"G", "int", 1, [][]int{{0}, {1}})}
				out = append(out, p)
			}
		}
	}
	return out
}

// delegationShapes: YieldFrom at the statement positions the random generators do not reach (initialisers of
// switch / type switch / for whose cases or body do not yield themselves, nested in other statements).
var delegationShapes = []shape{
	{name: "yieldfrom-as-initialiser", tags: []string{"yieldfrom"}, decls: `
$GEN{$NX(a int)}{int}{
	$YIELD{a}
	$YIELD{a + 1}
	$RET
}

$GEN{$NG(k int)}{int}{
	switch $YFROM{$NX(k)}; k {
	case 1:
		k++
	}
	$YIELD{k}
	i := 0
	for $YFROM{$NX(10)}; i < 2; i++ {
		tr.Ev(1, i)
	}
	switch $YFROM{$NX(20)}; v := tr.Any(k).(type) {
	case int:
		_ = v
	}
	switch $YFROM{$NX(30)}; {
	case k > 1:
		tr.Ev(2)
	default:
	}
	if k > 0 {
		switch $YFROM{$NX(40)}; k {
		case 2:
			tr.Ev(3)
		}
	}
	for j := 0; j < 2; j++ {
		switch $YFROM{$NX(50 + j)}; j {
		case 0:
			continue
		}
		tr.Ev(4, j)
	}
	$RET
}`, entries: []*Entry{drive("$NG", "int", 1, nil)}},
	// three-clause loops whose initialiser is a plain assignment to an existing variable (not :=, not a yield), with the
	// delegation in the body or in the post statement
	{name: "yieldfrom-in-loops-with-assignment-initialiser", tags: []string{"yieldfrom"}, decls: `
$GEN{$NX(a int)}{int}{
	$YIELD{a}
	$YIELD{a + 1}
	$RET
}

$GEN{$NG(k int)}{int}{
	i := 9
	for i = 0; i < 2; i++ {
		$YFROM{$NX(10 * i)}
	}
	$YIELD{-1}
	for i = k; i < k+2; i++ {
		$YFROM{$NX(100 * i)}
	}
	j := 7
	for j = 2; j < 4; $YFROM{$NX(10 * j)} {
		j++
	}
	$YIELD{j}
	type node struct {
		v    int
		next *node
	}
	head := &node{1, &node{2, &node{k, nil}}}
	var cur *node
	for cur = head; cur != nil; cur = cur.next {
		$YFROM{$NX(cur.v)}
	}
	$RET
}`, entries: []*Entry{drive("$NG", "int", 1, nil)}},
	{name: "yieldfrom-as-initialiser-last-statement", tags: []string{"yieldfrom"}, decls: `
$GEN{$NX(a int)}{int}{
	$YIELD{a}
	$RET
}

$GEN{$NG(k int)}{int}{
	switch $YFROM{$NX(k)}; k {
	case 1:
		tr.Ev(1)
	}
	$RET
}

$GEN{$NH(k int)}{int}{
	for i := 0; i < 2; i++ {
		switch $YFROM{$NX(k + i)}; {
		case i == 1:
			tr.Ev(2)
		}
	}
	$RET
}`, entries: []*Entry{drive("$NG", "int", 1, nil), drive("$NH", "int", 1, nil)}},
}

// rangeShapes: range clauses whose meaning depends on HOW the iteration values are assigned (C04): with `=` the
// values are assigned "as in an assignment statement" (index operands on the left are evaluated before any
// assignment), conversions of the range expression, named collection types.
var rangeShapes = []shape{
	{name: "range-assign-second-operand-depends-on-first", decls: `
$GEN{$NG(a int)}{int}{
	src := []int{10, 20, 30, 40}
	dst := make([]int, 4)
	i := 3
	for i, dst[i] = range src {
		tr.Ev(1, i)
	}
	for _, d := range dst {
		$YIELD{d + a}
	}
	xs := []int{5, 6, 7}
	var v int
	for xs[0], v = range xs {
		$YIELD{v*10 + xs[0]}
	}
	m := map[int]int{}
	k := 0
	for k, m[k] = range []int{7, 8, 9} {
	}
	$YIELD{m[0]*100 + m[1]*10 + m[2]}
	copyShifted := func() (out [4]int) {
		j := 0
		for j, out[j] = range src {
		}
		return
	}
	sh := copyShifted()
	$YIELD{sh[0] + sh[1] + sh[2]}
	$RET
}`, entries: []*Entry{drive("$NG", "int", 1, [][]int{{0}, {1}})}},
	{name: "range-over-rune-slice-conversion", decls: `
$GEN{$NG(a int)}{int}{
	s := "héllo, 日本"
	for i := range []rune(s) {
		$YIELD{i}
	}
	for i, r := range []rune(s) {
		$YIELD{i*1000 + int(r)%1000}
	}
	var k int
	for k = range []rune(s[a:]) {
	}
	$YIELD{k}
	for i := range []byte(s) {
		if i > 3 {
			break
		}
		$YIELD{i}
	}
	n := 0
	for range []rune(s) {
		n++
	}
	$YIELD{n}
	count := func(t string) (c int) {
		for i := range []rune(t) {
			c += i
		}
		return
	}
	$YIELD{count(s)}
	$RET
}`, entries: []*Entry{drive("$NG", "int", 1, [][]int{{0}, {1}})}},
	{name: "range-over-named-collection-types", decls: `
type $NInts []int
type $NDict map[string]int
type $NPipe chan int
type $NGrid [2][2]int

$GEN{$NG(a int)}{int}{
	for i, v := range ($NInts{4, 5, a}) {
		$YIELD{i*10 + v}
	}
	for k, v := range ($NDict{"k": a}) {
		$YIELD{len(k) + v}
	}
	p := make($NPipe, 2)
	p <- a
	p <- a + 1
	close(p)
	for v := range p {
		$YIELD{v}
	}
	g := $NGrid{{1, 2}, {3, a}}
	for _, row := range g {
		for _, c := range row {
			$YIELD{c}
		}
	}
	var ro <-chan int = tr.Chan(8, 9)
	for v := range ro {
		$YIELD{v}
	}
	$RET
}`, entries: []*Entry{drive("$NG", "int", 1, [][]int{{0}, {2}})}},
}

func rangeShapePrograms() []*Program {
	var out []*Program
	for i, sh := range rangeShapes {
		out = append(out, mkShapeProgram("A"+itoa(100+i), sh))
	}
	return out
}

// iteratorValueShapes: iterators that are themselves VALUES produced by generator code (a generator of generators, an
// iterator-returning call as the operand of Yield, iterators stored and handed out later): every call of a generator
// function must give a new, independent iterator, also when the call is the whole operand of a Yield in a loop.
var iteratorValueShapes = []shape{
	{name: "generator-of-generators-held-and-interleaved", tags: []string{"eta-shape"}, decls: `
$GEN{$NCount(n int)}{int}{
	for i := 0; i < n; i++ {
		tr.Ev(1, n, i)
		$YIELD{i}
	}
	$RET
}

$GEN{$NMany(k int)}{$ITER{int}}{
	for i := 0; i < k; i++ {
		$YIELD{$NCount(3)}
	}
	$YIELD{$NCount(2)}
	$RET
}

$GEN{$NFirst(k int)}{$ITER{int}}{
	$YIELD{$NCount(3)}
	$YIELD{$NCount(3)}
	$RET
}

func $NC(a int) (res int) {
	var its []$ITER{int}
	for it := range $RANGE{$NMany(2 + a%2)} {
		its = append(its, it)
	}
	// round robin over all collected iterators
	for alive := true; alive; {
		alive = false
		for i, it := range its {
			if it.MoveNext() {
				alive = true
				res = res*3 + it.Current() + i
				tr.Ev(2, i, it.Current())
			}
		}
	}
	return
}

func $ND(a int) (res int) {
	var its []$ITER{int}
	for it := range $RANGE{$NFirst(a)} {
		its = append(its, it)
	}
	for its[0].MoveNext() {
		res += 10
	}
	for its[1].MoveNext() {
		res++
	}
	return
}`, entries: []*Entry{callEntry("$NC", 1, nil), callEntry("$ND", 1, [][]int{{0}})}},
}

// multi-value short declarations whose names shadow package-level variables / locals of the enclosing function: they
// declare locals of the generator; two live iterators of the same generator must not share them
var shadowingStateShapes = []shape{
	{name: "multi-define-shadowing-outer-variables-under-interleaving", decls: `
var $Nlo, $Nhi = 100, 200

$GEN{$NSpan(from int, n int)}{int}{
	$Nlo, $Nhi := from, from+n
	for i := $Nlo; i < $Nhi; i++ {
		$YIELD{i}
	}
	$RET
}

func $NC(a int) (res int) {
	x, y := $NSpan(0, 3), $NSpan(10+a, 3)
	for k := 0; k < 4; k++ {
		if x.MoveNext() {
			res = res*7 + x.Current()
			tr.Ev(1, x.Current())
		}
		if y.MoveNext() {
			res = res*7 + y.Current()
			tr.Ev(2, y.Current())
		}
	}
	tr.Ev(3, $Nlo, $Nhi)
	mk := func(base int) $ITER{int} {
		cur, end := 0, 0
		gen := $GEN{(from int)}{int}{
			cur, end := from, from+2
			for ; cur < end; cur++ {
				$YIELD{cur + base}
			}
			$RET
		}
		_, _ = cur, end
		return gen(base)
	}
	p, q := mk(1), mk(5)
	for p.MoveNext() && q.MoveNext() {
		res = res*3 + p.Current() + q.Current()
	}
	return
}`, entries: []*Entry{callEntry("$NC", 1, nil)}},
}

func iteratorValuePrograms() []*Program {
	var out []*Program
	for i, sh := range iteratorValueShapes {
		out = append(out, mkShapeProgram("V"+itoa(100+i), sh))
	}
	for i, sh := range shadowingStateShapes {
		out = append(out, mkShapeProgram("V"+itoa(200+i), sh))
	}
	return out
}
